#!/venv/bin/python
"""Evaluate a seeded change (patch + demonstration) against a scratch copy of /repo.

    selftest/seeded.py <patch.diff> <demo.py> [--props C01,C02 | --all] [--tier quick] [--skip-tests]

1. copies /repo (working tree, without .git) to a scratch dir, 2. checks the demo exits 0 there, 3. applies the patch (git apply),
4. runs the pinned test suite (expects the 42 stable tests to pass), 5. checks the demo exits 1, 6. runs the requested checks with
VERIF_REPO pointing at the copy and reports which raise a VIOLATION, 7. deletes the copy.  Prints a JSON summary on the last line."""
import argparse
import json
import os
import re
import shutil
import subprocess
import sys
import tempfile
from concurrent.futures import ThreadPoolExecutor

VERIF = os.path.dirname(os.path.dirname(os.path.abspath(__file__)))
ALL = ["C%02d" % i for i in range(1, 21)]


def sh(cmd, **k):
    return subprocess.run(cmd, capture_output=True, text=True, **k)


def main():
    ap = argparse.ArgumentParser()
    ap.add_argument("patch")
    ap.add_argument("demo")
    ap.add_argument("--props")
    ap.add_argument("--all", action="store_true")
    ap.add_argument("--tier", default="quick")
    ap.add_argument("--skip-tests", action="store_true")
    ap.add_argument("--jobs", type=int, default=4)
    a = ap.parse_args()
    props = ALL if a.all else (a.props.split(",") if a.props else [])
    d = tempfile.mkdtemp(prefix="vlc-seeded-", dir="/tmp")
    out = dict(patch=a.patch, demo_clean=None, applies=None, tests=None, demo_patched=None, caught_by=[], missed_by=[], harness_errors=[])
    try:
        dst = os.path.join(d, "repo")
        shutil.copytree("/repo", dst, ignore=shutil.ignore_patterns(".git", "__pycache__", "docs", "*.egg-info", "tmpfiles"))
        env = dict(os.environ, MPLBACKEND="Agg", PYTHONDONTWRITEBYTECODE="1")
        r = sh(["/venv/bin/python", "-W", "ignore", os.path.abspath(a.demo), dst], env=env, cwd=d, timeout=1800)
        out["demo_clean"] = r.returncode
        r = sh(["git", "apply", "--directory=" + os.path.relpath(dst, d), os.path.abspath(a.patch)], cwd=d)
        if r.returncode != 0:
            r = sh(["patch", "-p1", "-i", os.path.abspath(a.patch)], cwd=dst)
        out["applies"] = r.returncode == 0
        if not out["applies"]:
            out["apply_error"] = (r.stderr or r.stdout)[-500:]
            print(json.dumps(out))
            return 2
        if not a.skip_tests:
            r = sh(["/venv/bin/python", "-m", "pytest", "-q", "-p", "no:cacheprovider", "--timeout=900", "-x", "--deselect", "localcider/tests/test_plots.py"],
                   cwd=dst, env=env, timeout=3600)
            r = sh(["/venv/bin/python", "-m", "pytest", "-q", "-p", "no:cacheprovider", "--timeout=900"], cwd=dst, env=env, timeout=3600)
            m = re.search(r"(\d+) failed, (\d+) passed", r.stdout) or re.search(r"(\d+) passed", r.stdout)
            out["tests"] = m.group(0) if m else r.stdout[-300:]
        r = sh(["/venv/bin/python", "-W", "ignore", os.path.abspath(a.demo), dst], env=env, cwd=d, timeout=1800)
        out["demo_patched"] = r.returncode
        out["demo_output"] = (r.stdout + r.stderr)[-600:]

        def one(p):
            e = dict(os.environ, VERIF_REPO=dst, VERIF_EVIDENCE_DIR=os.path.join(d, "evidence"), VERIF_REPLAY_DIR=os.path.join(d, "replay"))
            r = sh([os.path.join(VERIF, "check"), p, "--tier", a.tier], env=e, timeout=7200)
            buckets = sorted(set(l.strip()[len("bucket="):] for l in r.stdout.splitlines() if l.strip().startswith("bucket=")))
            return p, r.returncode, buckets, (r.stderr[-300:] if r.returncode == 2 else "")
        with ThreadPoolExecutor(a.jobs) as ex:
            for p, rc, buckets, err in ex.map(one, props):
                if rc == 1:
                    out["caught_by"].append({"property": p, "buckets": buckets[:6]})
                elif rc == 2:
                    out["harness_errors"].append({"property": p, "err": err})
                else:
                    out["missed_by"].append(p)
    finally:
        shutil.rmtree(d, ignore_errors=True)
    print(json.dumps(out))
    return 0


if __name__ == "__main__":
    sys.exit(main())
