#!/venv/bin/python
"""Mutation self-test (run by hand, not a registered check).

    selftest/run.py [--props C07,C02] [--ids m1,m2] [--tier quick] [--jobs 8]

For every mutant in selftest/mutants.py: copy /repo to a scratch directory outside /repo and /verif,
apply the textual replacement, run the property's check with VERIF_REPO pointing at the copy, expect
exit 1 and a VIOLATION line, delete the copy.  Prints one line per (mutant, property) and a summary;
exit 0 iff every mutant was caught."""
import argparse
import os
import shutil
import subprocess
import sys
import tempfile
from concurrent.futures import ThreadPoolExecutor

HERE = os.path.dirname(os.path.abspath(__file__))
VERIF = os.path.dirname(HERE)
sys.path.insert(0, HERE)
from mutants import MUTANTS  # noqa


def run_one(m, prop, tier):
    d = tempfile.mkdtemp(prefix="vlc-mut-", dir="/tmp")
    try:
        dst = os.path.join(d, "repo")
        shutil.copytree("/repo", dst, ignore=shutil.ignore_patterns(".git", "__pycache__", "docs", "*.egg-info"))
        for edit in m["edits"]:
            p = os.path.join(dst, edit["file"])
            s = open(p).read()
            n = s.count(edit["old"])
            want = edit.get("count", 1)
            if n != want:
                return (m["id"], prop, "BAD-MUTANT", "pattern occurs %d times, expected %d" % (n, want))
            s = s.replace(edit["old"], edit["new"])
            open(p, "w").write(s)
        env = dict(os.environ, VERIF_REPO=dst, VERIF_EVIDENCE_DIR=os.path.join(d, "evidence"), VERIF_REPLAY_DIR=os.path.join(d, "replay"))
        r = subprocess.run([os.path.join(VERIF, "check"), prop, "--tier", tier], env=env, capture_output=True, text=True, timeout=3600)
        lines = [l for l in r.stdout.splitlines() if l.startswith("VIOLATION")]
        buckets = [l.strip() for l in r.stdout.splitlines() if l.strip().startswith("bucket=")]
        if r.returncode == 1 and lines:
            return (m["id"], prop, "caught", "; ".join(buckets[:3]))
        if r.returncode == 2:
            return (m["id"], prop, "HARNESS-ERROR", (r.stderr or r.stdout)[-400:])
        return (m["id"], prop, "MISSED", "exit %d" % r.returncode)
    finally:
        shutil.rmtree(d, ignore_errors=True)


def main():
    ap = argparse.ArgumentParser()
    ap.add_argument("--props")
    ap.add_argument("--ids")
    ap.add_argument("--tier", default="quick")
    ap.add_argument("--jobs", type=int, default=4)
    a = ap.parse_args()
    props = set(a.props.split(",")) if a.props else None
    ids = set(a.ids.split(",")) if a.ids else None
    jobs = []
    for m in MUTANTS:
        if ids and m["id"] not in ids:
            continue
        for prop in m["props"]:
            if props and prop not in props:
                continue
            jobs.append((m, prop))
    bad = 0
    with ThreadPoolExecutor(a.jobs) as ex:
        for res in ex.map(lambda j: run_one(j[0], j[1], a.tier), jobs):
            print("%-34s %-4s %-14s %s" % res, flush=True)
            if res[2] != "caught":
                bad += 1
    print("%d/%d caught" % (len(jobs) - bad, len(jobs)))
    return 1 if bad else 0


if __name__ == "__main__":
    sys.exit(main())
