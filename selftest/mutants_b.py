"""Mutants for C09-C14 (loaded by mutants.py; `m` is injected)."""
SEQ = "localcider/backend/sequence.py"
SP = "localcider/sequenceParameters.py"
CX = "localcider/backend/sequenceComplexity.py"
AAS = "localcider/backend/data/aminoacids.py"
FP = "localcider/backend/seqfileparser.py"

MUTANTS = [
    # ---- C09
    m("pka-his", ["C09"], AAS, "            'H': 6.5,", "            'H': 6.0,"),
    m("hh-drop-H", ["C09"], SEQ, "            if res in ['K','R','H']:                ", "            if res in ['K','R']:                "),
    m("pI-threshold-.05", ["C09"], SEQ, "threshold=0.02 # error threshold", "threshold=0.05 # error threshold"),
    m("ph-14-rejected", ["C09"], SP, "        if pH > 14.0:", "        if pH >= 14.0:"),
    m("ph-low-guard-gone", ["C09"], SP, "        if pH < 0.0:", "        if pH < -1.0:"),
    m("hh-total-sign", ["C09"], SEQ, "            negative_numerator=1.0\n", "            negative_numerator=-1.0\n"),
    m("hh-fer-no-P", ["C09"], SEQ,
      "return (self.charge_at_pH(pH, mode='TOTAL') + self.seq.count('P')) / (self.len + 0.0)",
      "return (self.charge_at_pH(pH, mode='TOTAL')) / (self.len + 0.0)"),
    m("pI-widen-wrong-way", ["C09"], SEQ,
      "                if protein_charge > 0:\n                    max_pH=max_pH + 1",
      "                if protein_charge < 0:\n                    max_pH=max_pH + 1"),
    # ---- C10
    m("fcr-flanks-swapped", ["C10"], SEQ,
      "        # if bloblen is odd\n        if 2*flank+nblobs == self.len:\n            flank_start = flank\n            flank_end   = flank \n        else:\n            flank_start = flank - 1\n            flank_end   = flank ",
      "        # if bloblen is odd\n        if 2*flank+nblobs == self.len:\n            flank_start = flank\n            flank_end   = flank \n        else:\n            flank_start = flank\n            flank_end   = flank - 1"),
    m("sigma-guard-removed", ["C10"], SEQ,
      "varies over blob-sized regions along the sequence\n        \"\"\"\n\n        self.__check_window_to_length(bloblen)\n\n        nblobs = self.len - bloblen + 1\n\n        # determine the flanking positions over which we don't calculate \n        # sigma values",
      "varies over blob-sized regions along the sequence\n        \"\"\"\n\n        nblobs = self.len - bloblen + 1\n\n        # determine the flanking positions over which we don't calculate \n        # sigma values"),
    m("hydro-profile-0-9", ["C10"], SEQ, "            hydrochain.append(KDU[aminoacids.ONE_TO_THREE[i]])",
      "            hydrochain.append(KDU[aminoacids.ONE_TO_THREE[i]]*9.0)"),
    m("density-div-len", ["C10"], SEQ, "            blob_density[i] = sum(blob)/float(bloblen)", "            blob_density[i] = sum(blob)/float(self.len)"),
    m("ncpr-last-window-dropped-w8", ["C10"], SEQ,
      "        # for each overlapping blob in the sequence calculate the NCPR\n        for i in np.arange(0, nblobs):",
      "        # for each overlapping blob in the sequence calculate the NCPR\n        for i in np.arange(0, max(1, nblobs - (bloblen > 7))):",
      note="needs a window longer than 7 with more than one window"),
    m("comp-default-groups-H-missing", ["C10"], SEQ, "grps.append(['Q','N','S','T','G','H','C'])", "grps.append(['Q','N','S','T','G','C'])"),
    m("parse-group-no-upper-2", ["C10"], SEQ, "localgrp = set([x.upper() for x in localgrp])", "localgrp = set([x for x in localgrp])"),
    # ---- C11
    m("wf-log-base-2", ["C11"], CX, "CWF = p * (math.log(p, len(alphabet))) + CWF", "CWF = p * (math.log(p, 2)) + CWF"),
    m("wf-loop-lt", ["C11"], CX, "        CWF_array = []\n\n        # for each position\n        while (step <= len(sequence) - windowSize):", "        CWF_array = []\n\n        # for each position\n        while (step < len(sequence) - windowSize) or step == 0:"),
    m("cx-index-start-shift", ["C11"], CX, "index_start = (flank_start+1) + spacing//2", "index_start = (flank_start+2) + spacing//2\n        index_end = index_end + 1",
      note="positions shifted by one: last position can exceed N"),
    m("lzw-norm-seqlen", ["C11"], CX, "                LZW = float(n) / windowSize", "                LZW = float(n) / len(sequence)"),
    m("lc-window-from-prev", ["C11"], CX, "                position = step + i\n\n                ngram = ''.join(sequence[position:position + wordSize])", "                position = max(0, step - 1) + i\n\n                ngram = ''.join(sequence[position:position + wordSize])",
      note="LC looks one residue to the left of its window"),
    m("cx-type-rhp-allowed", ["C11"], SP, "allowed_types = ('WF', 'LC', 'LZW')", "allowed_types = ('WF', 'LC', 'LZW', 'RHP')"),
    # (removing the WF window guard is an equivalent mutant: an over-long window then dies with ZeroDivisionError, still a rejection)
    # ---- C12
    m("alph6-C-into-LVIM", ["C12", "C11"], CX, "            for x in sequence:\n                if x in ('L', 'V', 'I', 'M'):\n                    aa.append('L')\n                elif x in ('A', 'S', 'G', 'T'):\n                    aa.append('A')\n                elif x in ('P', 'H', 'C'):", "            for x in sequence:\n                if x in ('L', 'V', 'I', 'M', 'C'):\n                    aa.append('L')\n                elif x in ('A', 'S', 'G', 'T'):\n                    aa.append('A')\n                elif x in ('P', 'H', 'C'):"),
    m("alph12-QN-swapped", ["C12"], CX, "                elif x in ('E', 'Q'):\n                    aa.append('E')\n                elif x in ('D', 'N'):\n                    aa.append('D')", "                elif x in ('E', 'N'):\n                    aa.append('E')\n                elif x in ('D', 'Q'):\n                    aa.append('D')"),
    m("user-alphabet-no-value-check", ["C12"], CX, "                if converted not in TWENTY_AAs:", "                if False and converted not in TWENTY_AAs:"),
    m("alph-size-7-accepted", ["C12"], CX, "if alphabetSize not in [2, 3, 4, 5, 6, 8, 10, 11, 12, 15, 18, 20]:", "if alphabetSize not in [2, 3, 4, 5, 6, 7, 8, 10, 11, 12, 15, 18, 20]:"),
    m("alph8-H-rep-K", ["C12"], CX, "                elif x in ('H'):\n                    aa.append('H')", "                elif x in ('H'):\n                    aa.append('K')"),
    m("alph11-returned-alphabet-Q-to-N", ["C12"], CX, "eleven = ['L', 'C', 'A', 'G', 'S', 'P', 'F', 'E', 'K', 'H', 'Q']", "eleven = ['L', 'C', 'A', 'G', 'S', 'P', 'F', 'E', 'K', 'H', 'N']"),
    # ---- C13
    m("validate-keeps-whitespace", ["C13"], SEQ, "                        messageWarned = True\n                    pass", "                        messageWarned = True\n                    processed = processed + i"),
    m("validate-X-whitelisted", ["C13"], SEQ, "                # if unexpected residue/character bail\n                else:", "                elif i == 'X':\n                    processed = processed + 'G'\n                # if unexpected residue/character bail\n                else:"),
    m("len-from-raw-string", ["C13"], SEQ, "        # by default don't validate\n        if validateSeq:\n            seq = seq.upper()\n            seq = self.validateSequence(seq)\n\n        self.seq = seq.upper()\n        self.len = len(seq)", "        # by default don't validate\n        rawlen = len(seq)\n        if validateSeq:\n            seq = seq.upper()\n            seq = self.validateSequence(seq)\n\n        self.seq = seq.upper()\n        self.len = rawlen"),
    m("validate-no-upper", ["C13"], SEQ, "        if validateSeq:\n            seq = seq.upper()\n            seq = self.validateSequence(seq)", "        if validateSeq:\n            seq = self.validateSequence(seq)"),
    m("validate-digits-skipped", ["C13"], SEQ, "                if i.isspace():", "                if i.isspace() or i.isdigit():"),
    m("validate-only-ascii-space", ["C13"], SEQ, "                if i.isspace():", "                if i in ' \\t\\n\\r':"),
    m("empty-check-gone", ["C13"], SEQ, "        prolineContent = float(processed.count(\"P\")) / float(len(processed))", "        prolineContent = float(processed.count(\"P\")) / float(max(1, len(processed)))"),
    m("validate-first-char-unchecked", ["C13"], SEQ, "            if i not in AAs:\n\n                # if we find whitespace", "            if i not in AAs and pos > 1 and (pos < 9 or not i.islower()):\n                pass\n            if i not in AAs and pos > 1:\n\n                # if we find whitespace",
      note="only the first character escapes validation"),
    # ---- C14
    m("file-digits-kept", ["C14"], FP, '                elif i in "1234567890":', '                elif i in "123456789":'),
    m("file-second-header-tolerated", ["C14"], FP, "                if header:\n                    raise SequenceFileParserException(", "                if header and len(seq) == 0:\n                    raise SequenceFileParserException(",
      note="a second header is only rejected before any residue was read"),
    m("file-star-stripped-anywhere", ["C14"], FP, "                    parsed_seq = parsed_seq + i                    \n                    continue", "                    continue"),
    # (replacing line.strip() by rstrip('\\n') is equivalent on the specified domain: only indented headers / edge tabs differ, both unspecified)
    m("file-lowercase-accepted", ["C14"], FP, "        for i in sequence:\n\n            # if the residue is not in the three letter code", "        for i in sequence.upper():\n\n            # if the residue is not in the three letter code"),
    m("file-double-star-ok", ["C14"], FP, "        if number_of_asterisk > 1:", "        if number_of_asterisk > 2:"),
    m("file-star-mid-ok-if-last-line", ["C14"], FP, '        if seq[-1] == "*":\n            return seq[0:-1]', '        if seq[-1] == "*" or seq.index("*") > len(seq) - 4:\n            return seq.replace("*", "")',
      note="a '*' within the last three residues is silently dropped"),
    m("file-header-anywhere-in-line", ["C14"], FP, '            if line[0] == ">":', '            if ">" in line:'),
    m("file-ctor-truncates-60", ["C14"], SP, "            self.SeqObj = Sequence(parserMachine.parseSeqFile(sequenceFile))", "            self.SeqObj = Sequence(parserMachine.parseSeqFile(sequenceFile)[:250])",
      note="constructor silently truncates long files"),
]
