"""Mutants for C09-C14 (loaded by mutants.py; `m` is injected)."""
SEQ = "localcider/backend/sequence.py"
SP = "localcider/sequenceParameters.py"
CX = "localcider/backend/sequenceComplexity.py"
AAS = "localcider/backend/data/aminoacids.py"
FP = "localcider/backend/seqfileparser.py"

MUTANTS = [
    # ---- C09
    m("pka-his", ["C09"], AAS, "            'H': 6.5,", "            'H': 6.0,"),
    m("hh-drop-H", ["C09"], SEQ, "            if res in ['K','R','H']:                ", "            if res in ['K','R']:                "),
    m("pI-threshold-.05", ["C09"], SEQ, "threshold=0.02 # error threshold", "threshold=0.05 # error threshold"),
    m("ph-14-rejected", ["C09"], SP, "        if pH > 14.0:", "        if pH >= 14.0:"),
    m("ph-low-guard-gone", ["C09"], SP, "        if pH < 0.0:", "        if pH < -1.0:"),
    m("hh-total-sign", ["C09"], SEQ, "            negative_numerator=1.0\n", "            negative_numerator=-1.0\n"),
    m("hh-fer-no-P", ["C09"], SEQ,
      "return (self.charge_at_pH(pH, mode='TOTAL') + self.seq.count('P')) / (self.len + 0.0)",
      "return (self.charge_at_pH(pH, mode='TOTAL')) / (self.len + 0.0)"),
    m("pI-widen-wrong-way", ["C09"], SEQ,
      "                if protein_charge > 0:\n                    max_pH=max_pH + 1",
      "                if protein_charge < 0:\n                    max_pH=max_pH + 1"),
    # ---- C10
    m("fcr-flanks-swapped", ["C10"], SEQ,
      "        # if bloblen is odd\n        if 2*flank+nblobs == self.len:\n            flank_start = flank\n            flank_end   = flank \n        else:\n            flank_start = flank - 1\n            flank_end   = flank ",
      "        # if bloblen is odd\n        if 2*flank+nblobs == self.len:\n            flank_start = flank\n            flank_end   = flank \n        else:\n            flank_start = flank\n            flank_end   = flank - 1"),
    m("sigma-guard-removed", ["C10"], SEQ,
      "varies over blob-sized regions along the sequence\n        \"\"\"\n\n        self.__check_window_to_length(bloblen)\n\n        nblobs = self.len - bloblen + 1\n\n        # determine the flanking positions over which we don't calculate \n        # sigma values",
      "varies over blob-sized regions along the sequence\n        \"\"\"\n\n        nblobs = self.len - bloblen + 1\n\n        # determine the flanking positions over which we don't calculate \n        # sigma values"),
    m("hydro-profile-0-9", ["C10"], SEQ, "            hydrochain.append(KDU[aminoacids.ONE_TO_THREE[i]])",
      "            hydrochain.append(KDU[aminoacids.ONE_TO_THREE[i]]*9.0)"),
    m("density-div-len", ["C10"], SEQ, "            blob_density[i] = sum(blob)/float(bloblen)", "            blob_density[i] = sum(blob)/float(self.len)"),
    m("ncpr-last-window-dropped-w8", ["C10"], SEQ,
      "        # for each overlapping blob in the sequence calculate the NCPR\n        for i in np.arange(0, nblobs):",
      "        # for each overlapping blob in the sequence calculate the NCPR\n        for i in np.arange(0, max(1, nblobs - (bloblen > 7))):",
      note="needs a window longer than 7 with more than one window"),
    m("comp-default-groups-H-missing", ["C10"], SEQ, "grps.append(['Q','N','S','T','G','H','C'])", "grps.append(['Q','N','S','T','G','C'])"),
    m("parse-group-no-upper-2", ["C10"], SEQ, "localgrp = set([x.upper() for x in localgrp])", "localgrp = set([x for x in localgrp])"),
]
