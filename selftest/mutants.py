"""Hand-written mutants: each breaks one property while (mostly) keeping the pinned suite green.
edits: list of {file, old, new[, count]} textual replacements relative to the repository root."""
SEQ = "localcider/backend/sequence.py"
SP = "localcider/sequenceParameters.py"
CX = "localcider/backend/sequenceComplexity.py"
AAS = "localcider/backend/data/aminoacids.py"
FP = "localcider/backend/seqfileparser.py"
WL = "localcider/backend/wang_landau.py"
PL = "localcider/backend/plotting.py"
PLS = "localcider/plots.py"


def m(id, props, file, old, new, count=1, note=""):
    return dict(id=id, props=props, edits=[dict(file=file, old=old, new=new, count=count)], note=note)


MUTANTS = [
    # ---- C07
    m("scd-exponent", ["C07"], SEQ, "np.power((m-n),0.5)", "np.power((m-n),1.0)"),
    m("scd-norm", ["C07"], SEQ, "        return total/self.len\n", "        return total/max(1,self.len-1)\n"),
    m("scd-inner-range", ["C07"], SEQ, "for n in range(1,m):", "for n in range(2,m):"),
    # ---- C01
    m("kappa-clamp-1.2", ["C01"], SEQ, "if kappaVal > 1.0 and kappaVal < 1.1:", "if kappaVal > 1.0 and kappaVal < 1.2:"),
    m("kappa-no-clamp", ["C01"], SEQ, "if kappaVal > 1.0 and kappaVal < 1.1:", "if False:"),
    m("kappa-sentinel-fcr", ["C01"], SEQ, "        if self.deltaMax() == 0:\n            warning_message(", "        if self.FCR() == 0:\n            warning_message("),
    m("kappa-inverted", ["C01"], SEQ, "kappaVal = self.delta() / self.deltaMax()", "kappaVal = self.deltaMax() / self.delta() if self.delta() else 0.0"),
    m("kappa-clamp-all", ["C01"], SEQ, "if kappaVal > 1.0 and kappaVal < 1.1:", "if kappaVal > 1.0:", note="clamps every ratio>1: hides KF-1 but breaks the stated ratio rule"),
    # ---- C02
    m("delta-blob-5-7", ["C02", "C01"], SEQ, "return (self.deltaForm(5) + self.deltaForm(6)) / 2", "return (self.deltaForm(5) + self.deltaForm(7)) / 2"),
    m("delta-skip-last-blob", ["C02"], SEQ, "        for i in range(0, nblobs):\n\n            # get the blob charge pattern list", "        for i in range(0, nblobs - 1):\n\n            # get the blob charge pattern list"),
    m("delta-unsquared-ncpr", ["C02"], SEQ, "                bsig = bncpr**2 / bfcr\n\n            # calculate the square deviation", "                bsig = abs(bncpr) / bfcr\n\n            # calculate the square deviation"),
    m("delta-weight-len", ["C02"], SEQ, "ans += (sigma - bsig)**2 / nblobs", "ans += (sigma - bsig)**2 / self.len"),
    m("charge-R-neutral", ["C02", "C04", "C05"], AAS, "             'ARG': 1}", "             'ARG': 0}"),
    m("charge-H-positive", ["C02", "C04", "C05"], AAS, "             'HIS': 0,\n             'GLU': -1,", "             'HIS': 1,\n             'GLU': -1,"),
    # ---- C03
    m("dmax-end-range-5", ["C03"], SEQ, "                for endNeuts in range(0, 7):", "                for endNeuts in range(0, 5):", note="range(0,6) is an equivalent mutant: the maximum is never attained at 6 only"),
    m("dmax-threshold-17", ["C03"], SEQ, "elif(self.countNeut() >= 18):", "elif(self.countNeut() >= 17):"),
    m("dmax-threshold-19", ["C03"], SEQ, "elif(self.countNeut() >= 18):", "elif(self.countNeut() >= 19):"),
    m("dmax-slide-short", ["C03"], SEQ, "                for position in range(0, (self.len - nNeg) + 1):", "                for position in range(1, (self.len - nNeg)):", note="dropping one end only is equivalent by reversal symmetry"),
    m("dmax-permutant-last-candidate", ["C03"], SEQ, """                    if self.dmax < nseq.delta():
                      self.dmax = nseq.delta()
                      if returnSeqDeltaMax:
                        self.seqDeltaMax = nseq.__permutant_from_reduced_seq(parentSeqObj=self)

        if returnSeqDeltaMax:""", """                    if self.dmax < nseq.delta():
                      self.dmax = nseq.delta()
                    if returnSeqDeltaMax:
                        self.seqDeltaMax = nseq.__permutant_from_reduced_seq(parentSeqObj=self)

        if returnSeqDeltaMax:""", note="general regime records the last candidate's permutant, not the best one"),
    m("dmax-permutant-H-positive", ["C03"], SEQ, 'posRes = [res for res in parentSeqObj.seq if res in ("R", "K")]', 'posRes = [res for res in parentSeqObj.seq if res in ("R", "K", "H")]'),
    m("dmax-midneuts-short", ["C03"], SEQ, "            for midNeuts in range(0, nneuts + 1):", "            for midNeuts in range(0, nneuts):"),
    # ---- C05
    m("delta-blob-loop-from-1", ["C05", "C02"], SEQ, "        for i in range(0, nblobs):\n\n            # get the blob charge pattern list", "        for i in range(1, nblobs):\n\n            # get the blob charge pattern list"),
    m("scd-m-plus-n", ["C05", "C07"], SEQ, "np.power((m-n),0.5)", "np.power((m-n),0.5)*(1+0.01*(m+n))"),
    m("dmax-regime4-start-le-mid", ["C05", "C03"], SEQ, "                for startNeuts in range(0, nneuts - midNeuts + 1):", "                for startNeuts in range(0, min(midNeuts, nneuts - midNeuts) + 1):"),
    m("omega-without-P", ["C05", "C06"], SEQ, "            if res == 'P' or res =='E' or res =='D' or res =='K' or res =='R': \n                newseq=newseq+'E'", "            if res =='E' or res =='D' or res =='K' or res =='R': \n                newseq=newseq+'E'"),
    m("dmax-regime3-end-lt-4", ["C05", "C03"], SEQ, "                for endNeuts in range(0, 7):", "                for endNeuts in range(0, 4):", note="asymmetric family: inversion changes delta-max for compositions maximised at (0,4)"),
    # ---- C04
    m("kd-cys", ["C04"], AAS, "             'CYS': 2.5,", "             'CYS': 2.6,"),
    m("kd-arg", ["C04"], AAS, "             'ARG': -4.5}", "             'ARG': -4.4}"),
    m("ww-trp", ["C04"], AAS, "            'TRP':  1.85,", "            'TRP':  1.58,"),
    m("ppii-creamer-trp", ["C04"], AAS, "             'TRP': 0.58,\n             'TYR': 0.58,\n             'PRO': 0.67,", "             'TRP': 0.85,\n             'TYR': 0.58,\n             'PRO': 0.67,"),
    m("mw-cys", ["C04"], AAS, "             'C': 121.2,", "             'C': 121.1,"),
    m("mw-water-18.02", ["C04"], SEQ, "total = total - (18.0 * ( len(self.seq)-1 ))", "total = total - (18.02 * ( len(self.seq)-1 ))"),
    m("disorder-drop-H", ["C04"], SEQ, "D = ['T', 'A', 'G', 'R', 'D', 'H', 'Q', 'K', 'S', 'E', 'P']", "D = ['T', 'A', 'G', 'R', 'D', 'Q', 'K', 'S', 'E', 'P']"),
    m("expanding-drop-P", ["C04"], SEQ, "            return (self.countPos() + self.countNeg() + self.seq.count('P')) / (self.len + 0.0)", "            return (self.countPos() + self.countNeg()) / (self.len + 0.0)"),
    m("countneut-ge", ["C04"], SEQ, "return len(np.where(self.chargePattern == 0)[0])", "return len(np.where(self.chargePattern >= 0)[0])"),
    m("uversky-div-10", ["C04"], AAS, "        uversky[i] = shifted[i]/9.0", "        uversky[i] = shifted[i]/10.0"),
    # ---- C06
    m("omega-seq-XO-swapped", ["C06"], SEQ, "                newseq=newseq+'X'\n            else:\n                newseq=newseq+'O'", "                newseq=newseq+'O'\n            else:\n                newseq=newseq+'X'"),
    m("parse-group-no-upper", ["C06"], SEQ, "localgrp = set([x.upper() for x in localgrp])", "localgrp = set([x for x in localgrp if x.upper()])"),
    m("kappaX-two-group-rest-K", ["C06"], SEQ, "                else:\n                    newseq=newseq+'G'", "                else:\n                    newseq=newseq+'K'"),
    m("parse-group-no-validation", ["C06"], SEQ, "            if res not in aminoacids.TWENTY_AAs:\n                raise SequenceException(\"ERROR: Found non-natural", "            if False:\n                raise SequenceException(\"ERROR: Found non-natural"),
    m("kappaX-grp2-ignored-when-small", ["C06"], SEQ, "        if grp2:\n            grp2 = self.__parse_group(grp2)", "        if grp2 and len(grp2) > 1:\n            grp2 = self.__parse_group(grp2)\n        elif grp2:\n            grp2 = self.__parse_group(grp2) if len(self.seq) < 25 else None"),
    # ---- C08
    m("region-2-strict", ["C08"], SEQ, "elif(fcr >= .25 and fcr <= .35):", "elif(fcr >= .25 and fcr < .35):"),
    m("region-3-le", ["C08"], SEQ, "elif(fcr > .35 and abs(ncpr) < 0.35):", "elif(fcr > .35 and abs(ncpr) <= 0.35):"),
    m("region-4-5-swapped", ["C08"], SEQ, "                    \"Algorithm bug when coping with phase plot regions\")\n            return 5", "                    \"Algorithm bug when coping with phase plot regions\")\n            return 4"),
    m("region-fcr-.26", ["C08"], SEQ, "        if(fcr < .25):\n            return 1", "        if(fcr < .26):\n            return 1"),
]

import glob as _glob
import importlib.util as _ilu
import os as _os
for _f in sorted(_glob.glob(_os.path.join(_os.path.dirname(_os.path.abspath(__file__)), "mutants_*.py"))):
    _spec = _ilu.spec_from_file_location(_os.path.basename(_f)[:-3], _f)
    _mod = _ilu.module_from_spec(_spec)
    _mod.m = m
    _spec.loader.exec_module(_mod)
    MUTANTS.extend(_mod.MUTANTS)
