"""Hand-written mutants: each breaks one property while (mostly) keeping the pinned suite green.
edits: list of {file, old, new[, count]} textual replacements relative to the repository root."""
SEQ = "localcider/backend/sequence.py"
SP = "localcider/sequenceParameters.py"
CX = "localcider/backend/sequenceComplexity.py"
AAS = "localcider/backend/data/aminoacids.py"
FP = "localcider/backend/seqfileparser.py"
WL = "localcider/backend/wang_landau.py"
PL = "localcider/backend/plotting.py"
PLS = "localcider/plots.py"


def m(id, props, file, old, new, count=1, note=""):
    return dict(id=id, props=props, edits=[dict(file=file, old=old, new=new, count=count)], note=note)


MUTANTS = [
    # ---- C07
    m("scd-exponent", ["C07"], SEQ, "np.power((m-n),0.5)", "np.power((m-n),1.0)"),
    m("scd-norm", ["C07"], SEQ, "        return total/self.len\n", "        return total/max(1,self.len-1)\n"),
    m("scd-inner-range", ["C07"], SEQ, "for n in range(1,m):", "for n in range(2,m):"),
]
