#!/venv/bin/python
"""Copy confirmed seeded changes from /tmp/seeded-out/<Cxx>/ into /verif/seeded/<Cxx>-<k>/ and write seeded/RESULTS.md.
A change is 'confirmed' when its evaluation shows: demo exits 0 on the clean copy, the patch applies, the pinned suite still gives
'10 failed, 42 passed', and the demo exits 1 with the patch."""
import glob
import json
import os
import shutil

SRC = "/tmp/seeded-out"
DST = "/verif/seeded"


def main():
    os.makedirs(DST, exist_ok=True)
    rows = []
    for d in sorted(glob.glob(os.path.join(SRC, "C??"))):
        pid = os.path.basename(d)
        for k in (1, 2):
            ev = os.path.join(d, "eval%d.json" % k)
            if not os.path.exists(ev):
                continue
            try:
                e = json.loads(open(ev).read().strip().splitlines()[-1])
            except Exception:   # noqa
                continue
            confirmed = e.get("demo_clean") == 0 and e.get("applies") and e.get("demo_patched") == 1 and str(e.get("tests", "")).startswith("10 failed, 42 passed")
            sid = "%s-%d" % (pid, k)
            caught = [c["property"] for c in e.get("caught_by", [])]
            rows.append((sid, pid, confirmed, caught, e))
            if not confirmed:
                continue
            out = os.path.join(DST, sid)
            os.makedirs(out, exist_ok=True)
            shutil.copy(os.path.join(d, "change%d.diff" % k), os.path.join(out, "patch.diff"))
            shutil.copy(os.path.join(d, "demo%d.py" % k), os.path.join(out, "demo.py"))
            notes = open(os.path.join(d, "notes%d.md" % k)).read() if os.path.exists(os.path.join(d, "notes%d.md" % k)) else ""
            shutil.copy(os.path.join(d, "notes%d.md" % k), os.path.join(out, "notes.md")) if notes else None
            meta = dict(id=sid, breaks_property=pid, source="independent sub-agent given only the property text and a scratch worktree",
                        needs_to_manifest=notes.strip()[:1500],
                        verified=dict(demo_on_clean_copy_exit=e["demo_clean"], patch_applies=e["applies"], pinned_suite=e["tests"], demo_with_patch_exit=e["demo_patched"],
                                      command="selftest/seeded.py seeded/%s/patch.diff seeded/%s/demo.py --all --tier quick" % (sid, sid)),
                        quick_checks_that_catch_it=e.get("caught_by", []), quick_checks_run=20,
                        caught_by_target_property=pid in caught)
            json.dump(meta, open(os.path.join(out, "meta.json"), "w"), indent=1)
    with open(os.path.join(DST, "RESULTS.md"), "w") as f:
        f.write("# Independently seeded changes vs the quick checks\n\n"
                "Each row: a change produced by a fresh sub-agent that saw only the property text. 'confirmed' = demo passes on the clean tree, patch applies,\n"
                "pinned suite unchanged (10 failed, 42 passed), demo fails with the patch. 'caught by' = quick checks that exit 1 with a VIOLATION line\n"
                "when pointed at a scratch copy carrying the patch (all 20 quick checks were run against every change).\n\n"
                "| change | target | confirmed | caught by target | caught by (quick tier) |\n|---|---|---|---|---|\n")
        for sid, pid, conf, caught, e in rows:
            f.write("| %s | %s | %s | %s | %s |\n" % (sid, pid, "yes" if conf else "NO", "yes" if pid in caught else "**no**", ", ".join(caught) or "—"))
    print("%d rows, %d confirmed, %d caught by target, %d caught by some check" % (
        len(rows), sum(1 for r in rows if r[2]), sum(1 for r in rows if r[2] and r[1] in r[3]), sum(1 for r in rows if r[2] and r[3])))


if __name__ == "__main__":
    main()
