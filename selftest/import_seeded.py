#!/venv/bin/python
"""Copy confirmed seeded changes from the sub-agents' output directories into /verif/seeded/<id>/ and write seeded/RESULTS.md.
A change is 'confirmed' when its evaluation (selftest/seeded.py) shows: demo exits 0 on the clean copy, the patch applies, the pinned suite
still gives '10 failed, 42 passed', and the demo exits 1 with the patch.  Two evaluations are recorded per change: 'first' (the checks as
they were when the change arrived) and 'after' (the target property's quick check after the strengthening the round prompted)."""
import glob
import json
import os
import shutil

ROUNDS = [("r1", "/tmp/seeded-out", "all 20 quick checks"), ("r2", "/tmp/seeded-out2", "target property + C15"),
          ("r3", "/tmp/seeded-out3", "target property + C15"), ("r4", "/tmp/seeded-out4", "target property + C15"),
          ("r5", "/tmp/seeded-out5", "target property + C15"), ("r6", "/tmp/seeded-out6", "target property + C15")]
DST = "/verif/seeded"


def last_json(path):
    try:
        return json.loads(open(path).read().strip().splitlines()[-1])
    except Exception:   # noqa
        return None


def main():
    os.makedirs(DST, exist_ok=True)
    rows = []
    for rnd, src, scope in ROUNDS:
        for d in sorted(glob.glob(os.path.join(src, "C??"))):
            pid = os.path.basename(d)
            for k in (1, 2):
                e = last_json(os.path.join(d, "eval%d.json" % k))
                if e is None:
                    continue
                a = last_json(os.path.join(d, "evalafter%d.json" % k)) or (e if rnd == "r6" else {})   # r6: no strengthening needed unless re-evaluated
                confirmed = e.get("demo_clean") == 0 and e.get("applies") and e.get("demo_patched") == 1 and str(e.get("tests", "")).startswith("10 failed, 42 passed")
                sid = "%s-%s-%d" % (pid, rnd, k)
                first = [c["property"] for c in e.get("caught_by", [])]
                after = [c["property"] for c in a.get("caught_by", [])]
                rows.append((sid, pid, rnd, confirmed, first, after, scope, a))
                if not confirmed:
                    continue
                out = os.path.join(DST, sid)
                os.makedirs(out, exist_ok=True)
                shutil.copy(os.path.join(d, "change%d.diff" % k), os.path.join(out, "patch.diff"))
                shutil.copy(os.path.join(d, "demo%d.py" % k), os.path.join(out, "demo.py"))
                np_ = os.path.join(d, "notes%d.md" % k)
                notes = open(np_).read() if os.path.exists(np_) else ""
                if notes:
                    shutil.copy(np_, os.path.join(out, "notes.md"))
                meta = dict(id=sid, breaks_property=pid, round=rnd,
                            source="independent sub-agent given only the property text and its own scratch worktree" + (
                                "; told to assume a straightforward random test on fresh objects of <=60 residues already exists" if rnd == "r2" else
                                "; told to list the property's clauses and break the two least likely to be exercised, avoiding the mechanisms of rounds 1-2" if rnd == "r3" else
                                "; told to assume a strong randomized suite already exists and to make each change need a conjunction of two independent rare conditions" if rnd == "r4" else
                                "; told to present each change as a plausible maintenance commit (modernisation, optimisation, refactoring, validation tidy-up) with its commit message, no artificial trapdoors" if rnd == "r5" else
                                "; as r5, one change per agent, told to list the property's clauses and break the clause / secondary entry point / optional argument least likely to be exercised by a suite written from the headline" if rnd == "r6" else ""),
                            needs_to_manifest=notes.strip()[:1800],
                            verified=dict(demo_on_clean_copy_exit=e["demo_clean"], patch_applies=e["applies"], pinned_suite=e["tests"], demo_with_patch_exit=e["demo_patched"],
                                          how="selftest/seeded.py seeded/%s/patch.diff seeded/%s/demo.py --props %s  (scratch copy of /repo, VERIF_REPO)" % (sid, sid, pid)),
                            first_evaluation=dict(scope=scope, caught_by=e.get("caught_by", []), missed_by=e.get("missed_by", [])),
                            after_strengthening=dict(scope="target property quick check", caught_by=a.get("caught_by", []), missed_by=a.get("missed_by", [])),
                            caught_by_target_now=pid in after)
                json.dump(meta, open(os.path.join(out, "meta.json"), "w"), indent=1)
    with open(os.path.join(DST, "RESULTS.md"), "w") as f:
        f.write("# Independently seeded changes vs the checks\n\n"
                "Each row is a change produced by a fresh sub-agent that saw only the text of one property (round r2 agents were additionally told to\n"
                "assume that a straightforward random test on fresh objects of <=60 residues already exists; round r3 agents were told to list the clauses of the\n"
                "property and to break the two they judged least likely to be exercised, avoiding the mechanisms of the earlier rounds; round r4 agents were told that a strong randomized suite with\n"
                "long sequences, histories, caller-owned containers and boundary values already exists, and that each change must need a CONJUNCTION of two\n"
                "independent, individually unremarkable conditions, ideally rarer than 1 in 2000 random inputs; round r5 agents were told to present each\n"
                "change as an ordinary, well-meant maintenance commit -- modernisation, optimisation, refactoring, validation tidy-up -- with its commit\n"
                "message, without artificial trapdoors, slipping on an edge of the documented behaviour; round r6 (12 properties, one change each) repeated r5's\n"
                "brief and asked for the clause, secondary entry point or optional argument least likely to be exercised by a suite written from the headline). 'confirmed' = demo passes on a clean copy,\n"
                "patch applies, pinned suite unchanged (10 failed, 42 passed), demo fails with the patch. 'first evaluation' = quick checks that raised\n"
                "a VIOLATION when the change arrived (r1: all 20 quick checks were run; r2: only the target property and C15). 'target now' = does the\n"
                "target property's own quick check catch it after the strengthening described in DESIGN.md 9.3 / 9.7, and in which buckets.\n\n"
                "| change | target | confirmed | first evaluation: caught by | target now | buckets |\n|---|---|---|---|---|---|\n")
        for sid, pid, rnd, conf, first, after, scope, a in rows:
            buckets = "; ".join(b for c in a.get("caught_by", []) for b in c.get("buckets", [])[:2])
            f.write("| %s | %s | %s | %s | %s | %s |\n" % (sid, pid, "yes" if conf else "NO", ", ".join(first) or "—", "yes" if pid in after else "**no**", buckets))
        n = len(rows)
        f.write("\nTotals: %d changes, %d confirmed; caught by the target check at first evaluation: %d; caught by some check at first evaluation: %d; "
                "caught by the target check now: %d.\n" % (n, sum(1 for r in rows if r[3]), sum(1 for r in rows if r[1] in r[4]), sum(1 for r in rows if r[4]),
                                                       sum(1 for r in rows if r[1] in r[5])))
    print(open(os.path.join(DST, "RESULTS.md")).read()[-400:])


if __name__ == "__main__":
    main()
