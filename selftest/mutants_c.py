"""Mutants for the history / random-tape / plotting properties C15-C20 (loaded by mutants.py; `m` is injected)."""
SEQ = "localcider/backend/sequence.py"
SP = "localcider/sequenceParameters.py"
WL = "localcider/backend/wang_landau.py"
PL = "localcider/backend/plotting.py"
PLS = "localcider/plots.py"
PERM = "localcider/sequencePermutants.py"

MUTANTS = [
    # ---- C16
    m("phos-revert-F5", ["C16"], SEQ,
      "                                \" is outside sequence range. Skipping...\")\n                continue",
      "                                \" is outside sequence range. Skipping...\")\n                pass",
      note="the original defect repaired by the fix: commit"),
    m("phos-no-dedup", ["C16"], SEQ,
      "                if idx in self.phosphosites:\n                    # don't add the same residue twice, but no need to warn\n                    # about it\n                    pass\n                else:",
      "                if False:\n                    pass\n                else:"),
    m("phos-sorted", ["C16"], SEQ, "                    self.phosphosites.append(idx)\n", "                    self.phosphosites.append(idx)\n                    self.phosphosites.sort()\n"),
    m("phos-clear-noop-when-one", ["C16"], SEQ, "        self.phosphosites = []\n\n    #...................................................................................#\n    def calculateKappaDistOfPhosphoStates",
      "        if len(self.phosphosites) != 1:\n            self.phosphosites = []\n\n    #...................................................................................#\n    def calculateKappaDistOfPhosphoStates",
      note="clear does nothing when exactly one site is set"),
    m("phos-range-off-by-one", ["C16"], SEQ, "            if idx >= len(self.seq) or idx < 0:", "            if idx > len(self.seq) or idx < 0:"),
    m("phos-dist-reversed", ["C16"], SEQ, "                    newseq[self.phosphosites[indx]] = \"E\"", "                    newseq[self.phosphosites[-1 - indx]] = \"E\""),
    m("phos-maxphos-uses-D-for-Y", ["C16"], SEQ, "            for pos in self.phosphosites:\n                newseq[pos] = \"E\"", "            for pos in self.phosphosites[:3]:\n                newseq[pos] = \"E\"",
      note="kappa after phosphorylation only substitutes the first three sites"),
    m("phos-W-phosphorylatable", ["C16"], SEQ, "            if res not in [\"S\", \"T\", \"Y\"]:\n                # we skip it", "            if res not in [\"S\", \"T\", \"Y\", \"W\"]:\n                # we skip it"),
    # ---- C20
    m("html-mod-9", ["C20"], SEQ, "            if(np.mod(count, 10) == 0):", "            if(np.mod(count, 9) == 0):"),
    m("html-br-60", ["C20"], SEQ, "            if(np.mod(count, 50) == 0):", "            if(np.mod(count, 60) == 0):"),
    m("html-colour-of-previous", ["C20"], SEQ, "            color = self.aminoAcidColorMap[residue]", "            color = self.aminoAcidColorMap[self.seq[max(0, count - 1)]]"),
    m("palette-commit-key-by-key", ["C20"], SEQ, "            # if we get here update the 'valid' dictionary\n            valid[i] = colorDict[i].lower()",
      "            # if we get here update the 'valid' dictionary\n            valid[i] = colorDict[i].lower()\n            if hasattr(self, 'aminoAcidColorMap'):\n                self.aminoAcidColorMap[i] = valid[i]",
      note="palette entries are committed before validation of the whole dictionary has finished"),
    m("palette-colour-check-gone", ["C20"], SEQ, "            if colorDict[i] not in [\n                    'aqua',", "            if colorDict[i] is None or colorDict[i] not in [\n                    'pink', 'aqua',"),
    m("html-skip-residue-100", ["C20"], SEQ, "            color = self.aminoAcidColorMap[residue]\n", "            color = self.aminoAcidColorMap[residue]\n            if count == 100:\n                continue\n",
      note="the 101st residue is not rendered"),
    m("palette-shared-between-objects", ["C20", "C15"], SEQ, "        self.aminoAcidColorMap = {}\n        for i in valid:", "        self.aminoAcidColorMap = getattr(Sequence, '_shared_map', None) or {}\n        Sequence._shared_map = self.aminoAcidColorMap\n        for i in valid:",
      note="all objects share one palette dictionary"),
]
