"""Mutants for the history / random-tape / plotting properties C15-C20 (loaded by mutants.py; `m` is injected)."""
SEQ = "localcider/backend/sequence.py"
SP = "localcider/sequenceParameters.py"
WL = "localcider/backend/wang_landau.py"
PL = "localcider/backend/plotting.py"
PLS = "localcider/plots.py"
PERM = "localcider/sequencePermutants.py"

MUTANTS = [
    # ---- C16
    m("phos-revert-F5", ["C16"], SEQ,
      "                                \" is outside sequence range. Skipping...\")\n                continue",
      "                                \" is outside sequence range. Skipping...\")\n                pass",
      note="the original defect repaired by the fix: commit"),
    m("phos-no-dedup", ["C16"], SEQ,
      "                if idx in self.phosphosites:\n                    # don't add the same residue twice, but no need to warn\n                    # about it\n                    pass\n                else:",
      "                if False:\n                    pass\n                else:"),
    m("phos-sorted", ["C16"], SEQ, "                    self.phosphosites.append(idx)\n", "                    self.phosphosites.append(idx)\n                    self.phosphosites.sort()\n"),
    m("phos-clear-noop-when-one", ["C16"], SEQ, "        self.phosphosites = []\n\n    #...................................................................................#\n    def calculateKappaDistOfPhosphoStates",
      "        if len(self.phosphosites) != 1:\n            self.phosphosites = []\n\n    #...................................................................................#\n    def calculateKappaDistOfPhosphoStates",
      note="clear does nothing when exactly one site is set"),
    m("phos-range-off-by-one", ["C16"], SEQ, "            if idx >= len(self.seq) or idx < 0:", "            if idx > len(self.seq) or idx < 0:"),
    m("phos-dist-reversed", ["C16"], SEQ, "                    newseq[self.phosphosites[indx]] = \"E\"", "                    newseq[self.phosphosites[-1 - indx]] = \"E\""),
    m("phos-maxphos-uses-D-for-Y", ["C16"], SEQ, "            for pos in self.phosphosites:\n                newseq[pos] = \"E\"", "            for pos in self.phosphosites[:3]:\n                newseq[pos] = \"E\"",
      note="kappa after phosphorylation only substitutes the first three sites"),
    m("phos-W-phosphorylatable", ["C16"], SEQ, "            if res not in [\"S\", \"T\", \"Y\"]:\n                # we skip it", "            if res not in [\"S\", \"T\", \"Y\", \"W\"]:\n                # we skip it"),
    # ---- C20
    m("html-mod-9", ["C20"], SEQ, "            if(np.mod(count, 10) == 0):", "            if(np.mod(count, 9) == 0):"),
    m("html-br-60", ["C20"], SEQ, "            if(np.mod(count, 50) == 0):", "            if(np.mod(count, 60) == 0):"),
    m("html-colour-of-previous", ["C20"], SEQ, "            color = self.aminoAcidColorMap[residue]", "            color = self.aminoAcidColorMap[self.seq[max(0, count - 1)]]"),
    m("palette-commit-key-by-key", ["C20"], SEQ, "            # if we get here update the 'valid' dictionary\n            valid[i] = colorDict[i].lower()",
      "            # if we get here update the 'valid' dictionary\n            valid[i] = colorDict[i].lower()\n            if hasattr(self, 'aminoAcidColorMap'):\n                self.aminoAcidColorMap[i] = valid[i]",
      note="palette entries are committed before validation of the whole dictionary has finished"),
    m("palette-colour-check-gone", ["C20"], SEQ, "            if colorDict[i] not in [\n                    'aqua',", "            if colorDict[i] is None or colorDict[i] not in [\n                    'pink', 'aqua',"),
    m("html-skip-residue-100", ["C20"], SEQ, "            color = self.aminoAcidColorMap[residue]\n", "            color = self.aminoAcidColorMap[residue]\n            if count == 100:\n                continue\n",
      note="the 101st residue is not rendered"),
    m("palette-shared-between-objects", ["C20"], SEQ, "        self.aminoAcidColorMap = {}\n        for i in valid:", "        self.aminoAcidColorMap = getattr(Sequence, '_shared_map', None) or {}\n        Sequence._shared_map = self.aminoAcidColorMap\n        for i in valid:",
      note="all objects share one palette dictionary"),
    # ---- C15
    m("cache-revert-F3", ["C15", "C03"], SEQ, "        if returnSeqDeltaMax and self.seqDeltaMax is None:\n            self.dmax = -1\n", "        if False:\n            self.dmax = -1\n",
      note="the original defect repaired by the fix: commit (kappa, then deltaMax(True) -> (v, None))"),
    m("cache-dmax-drift", ["C15"], SEQ, "        if self.dmax != -1 and not returnSeqDeltaMax:\n          return self.dmax", "        if self.dmax != -1 and not returnSeqDeltaMax:\n          return self.dmax * 1.0000001"),
    m("lincomp-groups-list-grows", ["C15"], SEQ, "            sanitized_groups = []\n            for group in grps:", "            grps.append(grps[0])\n            sanitized_groups = []\n            for group in grps[:-1]:",
      note="the groups list object (the shared default after the first default call) grows by one entry per call; only visible once the default has been used twice"),
    m("phosphosites-shifted-in-place", ["C15", "C16"], SEQ, "        newSites = []\n        for i in self.phosphosites:\n            newSites.append(i + 1)\n        return newSites", "        for k in range(len(self.phosphosites)):\n            self.phosphosites[k] += 1\n        return self.phosphosites"),
    m("aafraction-class-level-dict", ["C15", "C04"], SEQ, "        for i in self.seq:\n            AADICT[i] += 1\n\n        for i in AADICT:", "        AADICT = Sequence.__dict__.setdefault('_AAD', AADICT) if False else getattr(Sequence, '_AAD', None) or AADICT\n        Sequence._AAD = AADICT\n        for i in self.seq:\n            AADICT[i] += 1\n\n        for i in AADICT:",
      note="amino-acid fractions accumulate in a dictionary shared by all calls"),
    m("omega-caches-on-self", ["C15"], SEQ, "        augmented_seq = Sequence(newseq)\n\n        return augmented_seq.kappa()\n\n\n    #...................................................................................#\n    def Omega_seq", "        augmented_seq = Sequence(newseq)\n        self.dmax = augmented_seq.deltaMax()\n\n        return augmented_seq.kappa()\n\n\n    #...................................................................................#\n    def Omega_seq",
      note="Omega overwrites the object's cached delta-max with that of the recoded sequence"),
    m("phosphoseq-mutates-seq", ["C15", "C16"], SEQ, "                pseq = pseq + \"E\"\n            else:", "                pseq = pseq + \"E\"\n                if len(self.phosphosites) > 2:\n                    self.seq = self.seq[:idx] + \"E\" + self.seq[idx + 1:]\n            else:",
      note="get_phosphosequence writes the substitution back into the stored sequence when more than two sites are set"),
    m("lkuptab-hydropathy-drift", ["C15"], "localcider/backend/restable.py", "        res = self.lookForRes(resCode)\n        return res.hydropathy", "        res = self.lookForRes(resCode)\n        res.hydropathy = res.hydropathy + (1e-9 if resCode == 'W' else 0.0)\n        return res.hydropathy",
      note="module-level residue table drifts with every lookup of W"),
    # ---- C17
    m("swaprand-revert-F6", ["C17", "C18"], SEQ, "rand.sample(sorted(posInd), 1)", "rand.sample(posInd, 1)", count=2, note="original defect (TypeError on sets)"),
    m("ctor-revert-F7", ["C17", "C18"], SEQ, "        if(len(chargePattern) == 0):", "        if(chargePattern == []):", note="original defect (ndarray == [])"),
    m("fullshuffle-ignores-frozen", ["C17"], SEQ, "            if i in frozen:\n                new_seq.append(lookup[i])", "            if i in frozen and len(frozen) < 3:\n                new_seq.append(lookup[i])",
      note="full_shuffle honours frozen only when fewer than three positions are frozen (and then runs out of residues)"),
    m("fullshuffle-frozen-off-by-one", ["C17"], SEQ, "        moveable_indicies = set(np.arange(0, self.len)) - set(frozen)", "        moveable_indicies = set(np.arange(0, self.len)) - set(frozen)\n        frozen = set(frozen)\n        if len(frozen) == 2 and self.len - 1 not in frozen:\n            moveable_indicies = (moveable_indicies | {min(frozen)}) - {max(frozen) + 1}\n            frozen = (frozen - {min(frozen)}) | {max(frozen) + 1}",
      note="with exactly two frozen positions the lower one is released and the one after the upper is frozen instead"),
    m("swapres-pattern-not-swapped", ["C17"], SEQ, "        tempChargeSeq[index1] = charge2\n        tempChargeSeq[index2] = charge1", "        tempChargeSeq[index1] = charge2\n        tempChargeSeq[index2] = charge2"),
    m("swapres-child-dmax-doubled", ["C17"], SEQ, "        return Sequence(''.join(tempseq), self.dmax, tempChargeSeq)", "        return Sequence(''.join(tempseq), self.dmax * 2 if self.dmax > 0 else self.dmax, tempChargeSeq)"),
    m("swaprand-mutates-self", ["C17"], SEQ, "        return self.swapRes(swapPair1[0], swapPair2[0])", "        child = self.swapRes(swapPair1[0], swapPair2[0])\n        self.seq = child.seq\n        return child"),
    m("blockswap-duplicates-block", ["C17"], SEQ, "        newseq[min(blocks_to_swap[1]):max(blocks_to_swap[1])] = old_seq_list[min(blocks_to_swap[0]):max(blocks_to_swap[0])]", "        newseq[min(blocks_to_swap[1]):max(blocks_to_swap[1])] = newseq[min(blocks_to_swap[0]):max(blocks_to_swap[0])]",
      note="second block is overwritten with the already-swapped first block: residues are duplicated / lost"),
    m("cluster-child-from-wrong-dmax", ["C17"], SEQ, "        outseq = Sequence(newseq, self.dmax)\n        assert outseq.countNeut() == self.countNeut()", "        outseq = Sequence(newseq, old_delta if self.dmax == -1 else self.dmax)\n        assert outseq.countNeut() == self.countNeut()",
      note="charge clustering hands the child the parent's delta as its delta-max when the parent has none cached"),
    m("permutant-drops-last", ["C17"], PERM, "        SO = self.SeqObj.full_shuffle([])", "        SO = self.SeqObj.full_shuffle([]) if len(self.SeqObj.seq) < 35 else self.SeqObj.full_shuffle([]).swapRes(0, 0).__class__(self.SeqObj.seq[:-1])",
      note="get_permutant loses the last residue of sequences of 35+ residues"),
]
