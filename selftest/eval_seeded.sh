#!/bin/sh
# eval_seeded.sh <seeded-id> [props]   e.g.  selftest/eval_seeded.sh C08-r5-1        (default props: the change's target property)
# Applies seeded/<id>/patch.diff to a scratch copy of /repo (outside /repo and /verif, removed afterwards), confirms the demonstration
# (exit 0 on the clean copy, 1 with the patch), re-runs the pinned test suite and runs the named quick checks against the copy
# (VERIF_REPO); prints a JSON summary whose "caught_by" lists the checks that raised a VIOLATION.  Nothing is written to /repo.
id=$1; props=${2:-$(echo "$id" | cut -c1-3)}
here=$(cd "$(dirname "$0")/.." && pwd)
exec "$here/selftest/seeded.py" "$here/seeded/$id/patch.diff" "$here/seeded/$id/demo.py" --props "$props" --jobs 2
