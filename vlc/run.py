"""./check <Cxx> [--tier quick|thorough] [--replay FILE] [--parts a,b]   (see DESIGN.md section 2)

exit 0 = property held on everything explored (KNOWN-FINDING lines possible)
exit 1 = at least one `VIOLATION property=<id> replay=<path>` line
exit 2 = harness / instrumentation error (never a verdict about the code)
"""
import argparse
import os
import sys
import traceback


def main(argv=None):
    ap = argparse.ArgumentParser()
    ap.add_argument("prop")
    ap.add_argument("--tier", default=os.environ.get("VERIF_TIER", "quick"), choices=["quick", "thorough"])
    ap.add_argument("--replay")
    ap.add_argument("--parts")
    a = ap.parse_args(argv)
    try:
        seed = int(os.environ.get("VERIF_SEED", "1") or "1")
    except ValueError:
        seed = 1
    seed = abs(seed) % (2 ** 31)
    from . import env, core
    modname = a.prop.lower()
    try:
        if a.replay:
            return core.replay(modname, a.replay)
        parts = set(a.parts.split(",")) if a.parts else None
        return core.run_property(modname, a.tier, seed, parts)
    except env.HarnessError as e:
        print("HARNESS-ERROR %s: %s" % (a.prop, e), file=sys.stderr)
        return 2
    except Exception:
        print("HARNESS-ERROR %s:\n%s" % (a.prop, traceback.format_exc()), file=sys.stderr)
        return 2


if __name__ == "__main__":
    sys.exit(main())
