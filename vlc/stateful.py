"""Histories: Hypothesis RuleBasedStateMachine driving a plain simulator object.

A property module supplies

    class Sim:
        def __init__(self, ctx, init): ...          # init is JSON-able (drawn from `init_strategy`)
        def apply(self, op, args): ...               # one API call + model update + assertions (ctx.fail / ctx.check)
        def finish(self): ...                        # no assertions; returns (nontrivial: bool, classes: list) for the evidence

    OPS = {"op-name": strategy_for_args, ...}        # args JSON-able; state-dependent choices are indices taken modulo the state

The machine only records [op, args] and delegates, so a failing history is the JSON case
{"init": ..., "steps": [[op, args], ...]} and `replay(ctx, case)` re-executes it without Hypothesis.
"""
import contextlib
import traceback

import hypothesis
from hypothesis import HealthCheck, Phase, settings, strategies as st
from hypothesis.stateful import RuleBasedStateMachine, initialize, rule, run_state_machine_as_test

from . import core, env


def replay_fn(sim_cls):
    def replay(ctx, case):
        sim = sim_cls(ctx, case["init"])
        for op, args in case["steps"]:
            sim.apply(op, args)
        nt, classes = sim.finish()
        ctx.count(case, nontrivial=nt, classes=classes)
    return replay


def run(ctx, sim_cls, ops, init_strategy, n_examples, max_steps, seed):
    """Run the machine; enumerates up to MAX_BUCKETS distinct failing buckets (shrunk histories)."""
    state = {}

    class Machine(RuleBasedStateMachine):
        def __init__(self):
            super().__init__()
            self.sim = None
            self.case = None

        @initialize(init=init_strategy)
        def start(self, init):
            self.case = {"init": core.jsonable(init), "steps": []}
            state["case"] = self.case
            self._guard(lambda: setattr(self, "sim", sim_cls(ctx, init)))

        def _guard(self, fn):
            try:
                core.guarded(ctx, lambda c, k: fn(), self.case)
            except core.Violation as v:
                v.case = core.jsonable(self.case)
                state["violation"] = v
                raise
            except core.Inconclusive:
                ctx.inconclusive += 1

        def teardown(self):
            # finish() only classifies the history (all assertions run inside apply, i.e. after every step)
            if self.sim is not None:
                try:
                    nt, classes = self.sim.finish()
                    ctx.count(self.case, nontrivial=nt, classes=classes)
                except Exception:   # noqa
                    pass

    def mk(name):
        def r(self, args):
            if self.sim is None:
                return
            self.case["steps"].append([name, core.jsonable(args)])
            self._guard(lambda: self.sim.apply(name, args))
        r.__name__ = "op_" + name.replace("-", "_")
        return rule(args=ops[name])(r)

    for name in ops:
        setattr(Machine, "op_" + name.replace("-", "_"), mk(name))

    for _round in range(3):
        state.clear()
        M = hypothesis.seed(seed)(Machine)
        # only the first failing history of a shard is shrunk (stateful shrinking may take minutes)
        sett = settings(max_examples=n_examples, stateful_step_count=max_steps, deadline=None, database=None,
                        report_multiple_bugs=False, print_blob=False, phases=[Phase.generate, Phase.shrink] if _round == 0 else [Phase.generate],
                        suppress_health_check=list(HealthCheck))
        try:
            with contextlib.redirect_stdout(core._SINK):
                run_state_machine_as_test(M, settings=sett)
            break
        except core.Violation as v:
            ctx.violations.append(dict(bucket=v.bucket, message=v.message, case=v.case if v.case is not None else core.jsonable(state.get("case"))))
            ctx.muted.add(v.bucket)
        except env.HarnessError:
            raise
        except Exception as e:   # noqa -- the library itself failed (e.g. while shrinking)
            v = state.get("violation")
            if v is not None:
                ctx.violations.append(dict(bucket=v.bucket, message=v.message + " [unshrunk: %s in the generator library]" % type(e).__name__, case=v.case))
                ctx.muted.add(v.bucket)
            else:
                raise env.HarnessError("stateful driver: %s" % "".join(traceback.format_exception(type(e), e, e.__traceback__))[-3000:])
