"""Hypothesis strategies.  Constructive (no filter/assume on the hot path); every random choice is
a Hypothesis choice so that failures shrink and replay."""
from hypothesis import strategies as st

from . import ref

AA = ref.AA
POS, NEG, NEUTRAL = ref.POS, ref.NEG, ref.NEUTRAL


def words(alphabet, min_size=1, max_size=60):
    # lists of sampled_from rather than st.text(alphabet=...): alphabets that depend on earlier draws trip the
    # Hypothesis 6.168 shrinker's sort_key ("ValueError: 69 is not in list") with text strategies
    return st.lists(st.sampled_from(list(alphabet)), min_size=min_size, max_size=max_size).map("".join)


@st.composite
def spelled(draw, pat):
    """Spell a charge pattern (iterable of +1/-1/0 or of '+-0') with random residues of each class."""
    out = []
    for c in pat:
        if c in (1, "+"):
            out.append(draw(st.sampled_from(POS)))
        elif c in (-1, "-"):
            out.append(draw(st.sampled_from(NEG)))
        else:
            out.append(draw(st.sampled_from(NEUTRAL)))
    return "".join(out)


@st.composite
def by_composition(draw, P, M, Z):
    """A random arrangement and spelling of P positive, M negative, Z neutral residues."""
    pat = ["+"] * P + ["-"] * M + ["0"] * Z
    pat = draw(st.permutations(pat))
    return draw(spelled(pat))


@st.composite
def compositions(draw, max_len=60, min_len=1):
    """(P, M, Z) with boosted regime boundaries."""
    kind = draw(st.integers(0, 9))
    N = draw(st.integers(min_len, max_len))
    if kind == 0:       # no neutrals
        P = draw(st.integers(0, N))
        return (P, N - P, 0)
    if kind == 1:       # one charge type
        k = draw(st.integers(0, N))
        return (k, 0, N - k) if draw(st.booleans()) else (0, k, N - k)
    if kind == 2:       # neutral count around the 18 threshold
        Z = draw(st.sampled_from([16, 17, 18, 19, 20]))
        P = draw(st.integers(1, 12))
        M = draw(st.integers(1, 12))
        return (P, M, Z)
    if kind == 3:       # balanced
        k = draw(st.integers(1, max(1, N // 2)))
        return (k, k, max(0, N - 2 * k))
    if kind == 4:       # equal blocks in the one-charge regime
        k = draw(st.integers(1, max(1, N // 2)))
        return (k, 0, k) if draw(st.booleans()) else (0, k, k)
    if kind == 5:       # a single minority charge (+ maybe one neutral) in a homopolymer
        Z = draw(st.integers(0, 2))
        k = max(1, N - 1 - Z)
        return (k, 1, Z) if draw(st.booleans()) else (1, k, Z)
    P = draw(st.integers(0, N))
    M = draw(st.integers(0, N - P))
    return (P, M, N - P - M)


CLASSES = ["idp", "idp", "idp", "polyampholyte", "polyampholyte", "polyelectrolyte", "polyelectrolyte", "uncharged",
           "lowcomplexity", "veryshort", "boundary", "boundary", "uniform", "uniform"]


@st.composite
def lengths(draw, min_len, max_len):
    """Length mixture: short, medium and long lengths each get a fair share (st.text alone is biased to tiny)."""
    lo, hi = min_len, max(min_len, max_len)
    bands = [(lo, min(hi, 8)), (min(hi, max(lo, 5)), min(hi, 30)), (min(hi, max(lo, 30)), hi), (lo, hi)]
    a, b = draw(st.sampled_from(bands))
    return draw(st.integers(a, max(a, b)))


def exact_words(alphabet, n):
    return st.lists(st.sampled_from(list(alphabet)), min_size=n, max_size=n).map("".join)


@st.composite
def sequences(draw, max_len=60, min_len=1, classes=None):
    """A valid sequence from one of the composition classes of DESIGN 3.1."""
    cls = draw(st.sampled_from(classes or CLASSES))
    hi = max(min_len, max_len)
    n = draw(lengths(min_len, hi))
    if cls == "idp":
        alpha = "KRDE" * 3 + "GSPQNTA" * 2 + AA
        return draw(exact_words(alpha, n))
    if cls == "polyampholyte":
        return draw(exact_words("KRDE", n))
    if cls == "polyelectrolyte":
        ch = draw(st.sampled_from([POS, NEG]))
        return draw(exact_words(ch * 2 + NEUTRAL, n))
    if cls == "uncharged":
        return draw(exact_words(NEUTRAL, n))
    if cls == "lowcomplexity":
        letters = draw(st.lists(st.sampled_from(AA), min_size=1, max_size=3))
        unit = draw(words(letters, 1, 6))
        return (unit * (n // len(unit) + 1))[:n]
    if cls == "veryshort":
        return draw(words(AA, min_len, max(min_len, min(hi, 7))))
    if cls == "boundary":
        P, M, Z = draw(compositions(max_len=hi, min_len=min_len))
        return draw(by_composition(P, M, Z))
    return draw(exact_words(AA, n))


def classify(seq):
    """Labels recorded in the evidence so the generated distribution can be read."""
    N = len(seq)
    P = sum(seq.count(r) for r in POS)
    M = sum(seq.count(r) for r in NEG)
    Z = N - P - M
    out = ["len:" + ("1-4" if N < 5 else "5" if N == 5 else "6-10" if N <= 10 else "11-30" if N <= 30
                     else "31-100" if N <= 100 else ">100")]
    out.append("regime:" + ref.regime(P, M, Z))
    if P and M and P == M:
        out.append("balanced")
    if len(set(seq)) <= 3 and N > 3:
        out.append("lowcomplexity")
    return out


def charge_patterns(max_len=40, min_len=1):
    return st.lists(st.sampled_from([1, -1, 0]), min_size=min_len, max_size=max_len)


# ---------------------------------------------------------------------------------------------
# warm-up histories: other API calls made on the object before the property's own queries

_GROUP = st.lists(st.sampled_from(list(AA)), min_size=1, max_size=4, unique=True)
_PH = st.one_of(st.sampled_from([0, 0.0, 7, 7.0, 14, 3.5, 10.5, 5.25, 8.75, 7.4]), st.floats(0, 14).map(lambda v: round(v, 2)))
_W = st.one_of(st.integers(1, 12), st.sampled_from([1, 1, 5, 6]))
_NOARG = ["get_kappa", "get_deltaMax", "get_delta", "get_Omega", "get_SCD", "get_isoelectric_point", "get_kappa_after_phosphorylation",
          "get_phosphosequence", "get_full_phosphostatus_kappa_distribution", "get_linear_sequence_composition", "get_FCR", "get_NCPR",
          "get_phasePlotRegion", "get_amino_acid_fractions", "get_HTMLColorString", "clear_phosphosites", "get_mean_hydropathy",
          "get_fraction_expanding", "get_molecular_weight", "get_uversky_hydropathy"]


@st.composite
def user_alphabets(draw):
    nimg = draw(st.integers(2, 6))
    images = draw(st.lists(st.sampled_from(list(AA)), min_size=nimg, max_size=nimg, unique=True))
    return {a: draw(st.sampled_from(images)) for a in AA}


@st.composite
def warm_call(draw):
    k = draw(st.integers(0, 12))
    if k == 12:
        # a plot made earlier in the same process (figure closed afterwards by the harness)
        name = draw(st.sampled_from(["show_phaseDiagramPlot", "show_uverskyPlot", "show_linearNCPR", "show_linearFCR"]))
        if name.startswith("show_linear"):
            return ["plot:" + name, {"blobLen": draw(st.sampled_from([1, 5, 6]))}]
        kw = {}
        if draw(st.booleans()):
            kw["xLim"] = draw(st.sampled_from([0.2, 0.3, 0.5, 1]))
        if draw(st.booleans()):
            kw["yLim"] = draw(st.sampled_from([0.2, 0.3, 0.5, 1]))
        if draw(st.booleans()):
            kw["label"] = "x"
        return ["plot:" + name, kw]
    if k <= 2:
        return [draw(st.sampled_from(_NOARG)), None]
    if k == 3:
        return ["get_deltaMax", [draw(st.booleans())]]
    if k == 4:
        return [draw(st.sampled_from(["get_FCR", "get_NCPR", "get_mean_net_charge", "get_fraction_expanding"])), [draw(_PH)]]
    if k == 5:
        return [draw(st.sampled_from(["get_linear_FCR", "get_linear_NCPR", "get_linear_sigma", "get_linear_hydropathy", "get_linear_sequence_composition"])), [draw(_W)]]
    if k == 6:
        g1 = draw(_GROUP)
        g2 = [x for x in draw(_GROUP) if x not in g1]
        return ["get_kappa_X", [g1, g2] if g2 and draw(st.booleans()) else [g1]]
    if k == 7:
        if draw(st.booleans()):
            return ["phospho_cycle", [draw(st.sampled_from([1, 2, 3, 4, 99])), draw(st.booleans())]]
        return ["set_phosphosites", [draw(st.lists(st.integers(-2, 40), min_size=1, max_size=4))]]
    if k == 8:
        if draw(st.booleans()):
            return ["get_reduced_alphabet_sequence", [20, draw(user_alphabets())]]
        return ["get_reduced_alphabet_sequence", [draw(st.sampled_from([2, 3, 5, 8, 12, 18]))]]
    if k == 9 and draw(st.integers(0, 3)) == 0:
        # a request that fails (one-letter alphabet: base-1 entropy) -- the NEXT request must still be answered correctly
        one = draw(st.sampled_from(list(AA)))
        return ["get_linear_complexity", ["WF", draw(st.sampled_from([20, 8, 2])), {a: one for a in AA}, draw(st.integers(1, 6)), 1, 3]]
    if k == 9:
        return ["get_linear_complexity", [draw(st.sampled_from(["WF", "LC", "LZW"])), 20, draw(user_alphabets()) if draw(st.booleans()) else {},
                                          draw(st.integers(1, 10)), draw(st.integers(1, 4)), draw(st.integers(1, 4))]]
    if k == 10:
        return ["get_linear_sequence_composition", [draw(_W), [draw(_GROUP) for _ in range(draw(st.integers(1, 3)))]]]
    return ["get_PPII_propensity", [draw(st.sampled_from(["hilser", "creamer", "kallenbach"]))]]


def warmups(max_calls=4):
    """Empty half of the time, otherwise 1..max_calls generated API calls."""
    return st.one_of(st.just([]), st.lists(warm_call(), min_size=1, max_size=max_calls))


# ---------------------------------------------------------------------------------------------
# long, highly charged sequences (dtype overflow, block-wise vectorisation and similar only show beyond ~128 residues)

@st.composite
def long_charged(draw, min_len=129, max_len=400):
    n = draw(st.one_of(st.integers(min_len, max_len), st.sampled_from([127, 128, 129, 130, 200, 255, 256, 257, 260, 300, 511, 512, 513])))
    n = max(min_len, min(max_len, n))
    kind = draw(st.sampled_from(["homopolymer", "diblock", "alternating", "random-charged", "mostly-charged", "two-letter", "pow2-charged"]))
    if kind == "pow2-charged":
        # the NUMBER of charged residues sits on or next to a power of two (block-wise or fixed-width accumulation boundaries)
        k = draw(st.sampled_from([k0 for k0 in (127, 128, 129, 255, 256, 257, 258, 511, 512, 513) if k0 <= max_len]))
        z = draw(st.integers(max(0, min_len - k), max(max(0, min_len - k), min(20, max_len - k))))
        lst0 = [draw(st.sampled_from("KRDE")) for _ in range(k)] + [draw(st.sampled_from("GSPQ")) for _ in range(z)]
        return "".join(draw(st.permutations(lst0)))
    if kind == "homopolymer":
        s = draw(st.sampled_from(list("KREDHCY"))) * n
    elif kind == "diblock":
        a, b = draw(st.sampled_from(["KE", "EK", "RD", "DR", "KG", "EG"]))
        cut = draw(st.integers(1, n - 1))
        s = a * cut + b * (n - cut)
    elif kind == "alternating":
        unit = draw(st.sampled_from(["EK", "KE", "EEKK", "EEEEG", "KKKKS", "RD"]))
        s = (unit * (n // len(unit) + 1))[:n]
    elif kind == "random-charged":
        s = draw(exact_words("KRDE", n))
    elif kind == "two-letter":
        s = draw(exact_words(draw(st.sampled_from(["KE", "KG", "EG", "RS", "DP"])), n))
    else:
        s = draw(exact_words("KKKKEEEERRDD" + "GSTPAQ", n))
    # a few substitutions so that the sequence is not perfectly regular
    lst = list(s)
    for _ in range(draw(st.integers(0, 3))):
        lst[draw(st.integers(0, n - 1))] = draw(st.sampled_from(list(AA)))
    return "".join(lst)


@st.composite
def neighbour_compositions(draw, min_len=101, max_len=320, cheap=True):
    """Several compositions of one length > 100 that differ by one residue (to be analysed one after another in the same
    process: shared memo tables keyed on rounded fractions collide exactly here)."""
    N = draw(st.one_of(st.integers(min_len, max_len), st.integers(max(min_len, 200), max_len)))
    if cheap:
        # regimes whose documented search is small (>=18 neutrals: 49 candidates; no neutrals: N candidates, short N only)
        Z = draw(st.integers(18, max(18, N - 4))) if (N > 160 or draw(st.booleans())) else 0
    else:
        Z = draw(st.integers(0, N - 2))
    C = N - Z
    P = draw(st.integers(0, C))
    M = C - P
    comps = [(P, M, Z)]
    for dP, dM in draw(st.permutations([(1, 0), (0, 1), (-1, 0), (0, -1), (1, -1), (-1, 1)]))[:draw(st.integers(1, 3))]:
        p, m = P + dP, M + dM
        z = N - p - m
        if p >= 0 and m >= 0 and z >= 0 and (p, m, z) not in comps:
            comps.append((p, m, z))
    return [list(c) for c in comps]


THREE_LETTER_NAMES = [n for n in ["ALA", "CYS", "ASP", "PHE", "GLY", "HIS", "ILE", "LYS", "MET", "ASN", "ARG", "SER", "THR", "VAL", "TRP", "TYR"] if all(c in AA for c in n)]


def name_concatenations(min_names=1, max_names=12):
    """Legal one-letter sequences that happen to read as concatenated three-letter residue names (ALASERMET ...)."""
    return st.lists(st.sampled_from(THREE_LETTER_NAMES), min_size=min_names, max_size=max_names).map("".join)


def paste_opt():
    """None (three times in four) or the number of a pasted spelling (util.pasted_k) under which the object is built."""
    return st.one_of(st.none(), st.none(), st.none(), st.integers(0, 6))


def child_opt():
    """None (three times in four) or the description of a shuffled child (tape seed, frozen positions) on which the property is checked as well."""
    return st.one_of(st.none(), st.none(), st.none(),
                     st.fixed_dictionaries({"tape": st.integers(0, 10 ** 6), "frozen": st.lists(st.integers(0, 40), max_size=4, unique=True)}))
