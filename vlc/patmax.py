"""Brute-force search for the delta-maximising arrangement of every composition of a given length
(vectorised float delta over all 3^n patterns).  Used only to *feed* maximisers to the real code (C01)."""
import numpy as np

_cache = {}


def _delta_all(pats):
    n = pats.shape[1]
    pos = (pats == 1).astype(np.int16)
    neg = (pats == -1).astype(np.int16)
    P = pos.sum(1).astype(np.float64)
    M = neg.sum(1).astype(np.float64)
    with np.errstate(divide="ignore", invalid="ignore"):
        s = np.where(P + M > 0, (P - M) ** 2 / (n * (P + M)), 0.0)
    out = np.zeros(len(pats))
    cp = np.concatenate([np.zeros((len(pats), 1), np.int16), np.cumsum(pos, 1, dtype=np.int16)], 1)
    cn = np.concatenate([np.zeros((len(pats), 1), np.int16), np.cumsum(neg, 1, dtype=np.int16)], 1)
    for w in (5, 6):
        if n < w:
            continue
        p = (cp[:, w:] - cp[:, :-w]).astype(np.float64)
        q = (cn[:, w:] - cn[:, :-w]).astype(np.float64)
        with np.errstate(divide="ignore", invalid="ignore"):
            sb = np.where(p + q > 0, (p - q) ** 2 / (w * (p + q)), 0.0)
        out += ((s[:, None] - sb) ** 2).mean(1)
    return out / 2, P.astype(np.int64), M.astype(np.int64)


def table(n, chunk=400000):
    """{(P, M, Z): '+-0' pattern string maximising delta among all arrangements of that composition}"""
    if n in _cache:
        return _cache[n]
    total = 3 ** n
    best = {}
    sym = np.array([0, 1, -1], dtype=np.int8)
    for start in range(0, total, chunk):
        idx = np.arange(start, min(total, start + chunk), dtype=np.int64)
        digits = np.empty((len(idx), n), dtype=np.int8)
        x = idx.copy()
        for j in range(n):
            digits[:, j] = sym[x % 3]
            x //= 3
        d, P, M = _delta_all(digits)
        key = P * (n + 1) + M
        order = np.lexsort((-d, key))
        ks = key[order]
        first = np.ones(len(ks), bool)
        first[1:] = ks[1:] != ks[:-1]
        for i in order[first]:
            k = (int(P[i]), int(M[i]), n - int(P[i]) - int(M[i]))
            if k not in best or d[i] > best[k][0] + 1e-15:
                best[k] = (float(d[i]), "".join("+" if c == 1 else "-" if c == -1 else "0" for c in digits[i]))
    _cache[n] = {k: v[1] for k, v in best.items()}
    return _cache[n]
