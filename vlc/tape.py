"""Random-tape shim (DESIGN 3.4).  localCIDER draws all randomness from `rng.Random()` objects that it seeds with
time.time(), where `rng` is a module-level name bound to the stdlib random module in backend/sequence.py and
backend/wang_landau.py.  The harness rebinds that module attribute to an object whose Random() hands out PRNGs it owns:
seed() is ignored, every draw is counted (and optionally logged), and a draw budget cuts runs that cannot terminate."""
import contextlib
import random

from . import env


class Budget(BaseException):
    """The draw budget of a case is exhausted (inconclusive, never a verdict)."""


class TapeRandom(random.Random):
    def __init__(self, owner, seed, index):
        self._locked = False
        super().__init__(seed)
        self._locked = True
        self.owner = owner
        self.index = index
        self.log = [] if owner.logging else None

    def seed(self, *a, **k):
        if getattr(self, "_locked", False):
            return None           # the library's seed(time.time()) is ignored: the harness owns the tape
        return super().seed(*a, **k)

    def _tick(self):
        o = self.owner
        o.draws += 1
        if o.budget is not None and o.draws > o.budget:
            raise Budget()

    def random(self):
        self._tick()
        v = super().random()
        if self.log is not None:
            self.log.append(v)
        return v

    def getrandbits(self, k):
        self._tick()
        return super().getrandbits(k)


class Tape:
    """One per case: owns every PRNG the library creates while installed."""

    def __init__(self, seed, budget=None, logging=False):
        self.seed, self.budget, self.logging = seed, budget, logging
        self.draws = 0
        self.instances = []

    def Random(self, *a, **k):
        r = TapeRandom(self, (self.seed * 1000003 + len(self.instances) * 7919) % (2 ** 63), len(self.instances))
        self.instances.append(r)
        return r


class _Shim:
    def __init__(self, real, tape):
        self._real, self._tape = real, tape

    def Random(self, *a, **k):
        return self._tape.Random(*a, **k)

    def __getattr__(self, name):
        return getattr(self._real, name)


@contextlib.contextmanager
def installed(tape):
    env.lc()
    import localcider.backend.sequence as S
    import localcider.backend.wang_landau as W
    saved = (S.rng, W.rng)
    if isinstance(saved[0], _Shim) or isinstance(saved[1], _Shim):
        raise env.HarnessError("tape shim already installed")
    if getattr(saved[0], "__name__", None) != "random" or getattr(saved[1], "__name__", None) != "random":
        raise env.HarnessError("backend modules no longer bind `rng` to the random module; the tape shim does not apply")
    S.rng = _Shim(saved[0], tape)
    W.rng = _Shim(saved[1], tape)
    try:
        yield tape
    finally:
        S.rng, W.rng = saved
