"""Core of the checking machinery: parts, contexts, bucketed violations, known findings,
evidence, replay files, exit codes.

A *property module* (vlc/props/cNN.py) exposes

    PROPERTY = "C07"
    RULE     = "how cases are generated and what makes one non-trivial"
    ASSUMPTIONS = [...]
    def parts(tier) -> list[Part]

A Part is one way of producing cases for the same executable oracle:

    Part(name, kind="enum",  cases=callable(tier, seed)->iterable, check=fn(ctx, case), ...)
    Part(name, kind="hyp",   strategy=callable(tier)->SearchStrategy, check=fn(ctx, case), ...)
    Part(name, kind="custom", run=fn(ctx, tier, seed))        # stateful machines, fuzzers

`check(ctx, case)` must be a pure function of the (JSON-able) case and the code under test; it
reports through ctx.fail(bucket, message, case, key=None) and ctx.note(...).  The same function is
what `--replay FILE` calls, bypassing the generator library.
"""
import contextlib
import hashlib
import json
import os
import sys
import time
import traceback
from collections import Counter

from . import env

MAX_BUCKETS = 5          # distinct root causes enumerated per part before giving up
MAX_SAMPLES = 6


class _Sink:
    def write(self, s):
        return len(s)

    def flush(self):
        pass


_SINK = _Sink()


class Violation(Exception):
    def __init__(self, bucket, message, case=None):
        Exception.__init__(self, "%s: %s" % (bucket, message))
        self.bucket = bucket
        self.message = message
        self.case = case


class Muted(BaseException):
    """A failure in a bucket that was already reported: abandon the case silently."""


class Inconclusive(BaseException):
    """A budget was hit; the case says nothing either way."""


def jsonable(x):
    import numpy as np
    if isinstance(x, dict):
        return {str(k): jsonable(v) for k, v in x.items()}
    if isinstance(x, (list, tuple)):
        return [jsonable(v) for v in x]
    if isinstance(x, (set, frozenset)):
        return sorted((jsonable(v) for v in x), key=repr)
    if isinstance(x, np.ndarray):
        return jsonable(x.tolist())
    if isinstance(x, (np.integer,)):
        return int(x)
    if isinstance(x, (np.floating,)):
        return float(x)
    if isinstance(x, float):
        if x != x or x in (float("inf"), float("-inf")):
            return repr(x)
        return x
    if isinstance(x, (str, int, bool)) or x is None:
        return x
    if isinstance(x, bytes):
        return {"__bytes__": x.hex()}
    return repr(x)


def case_hash(case):
    return hashlib.blake2b(json.dumps(jsonable(case), sort_keys=True).encode(), digest_size=8).hexdigest()


def load_known():
    """known_findings.jsonl -> ({key: entry} for status == 'known', [all entries])."""
    path = os.path.join(env.VERIF, "known_findings.jsonl")
    known, allentries = {}, []
    if os.path.exists(path):
        for line in open(path):
            line = line.strip()
            if not line or line.startswith("#"):
                continue
            e = json.loads(line)
            allentries.append(e)
            if e.get("status") == "known":
                known[e["key"]] = e
    return known, allentries


class Ctx:
    """Per-part accounting.  Picklable summary via .summary()."""

    def __init__(self, prop, part, tier, seed, known=None):
        self.prop, self.part, self.tier, self.seed = prop, part, tier, seed
        self.known = known if known is not None else load_known()[0]
        self.evaluations = 0
        self.nontrivial = set()
        self.samples = []
        self.nt_samples = []
        self.classes = Counter()
        self.muted = set()
        self.muted_hits = Counter()
        self.known_hits = Counter()
        self.known_examples = {}
        self.inconclusive = 0
        self.violations = []     # dicts: bucket, message, case
        self.extra = {}
        self.exhaustive = False
        from . import util
        util.ROUTES.clear()

    # ---- accounting -------------------------------------------------------------------------
    def count(self, case=None, nontrivial=False, classes=(), key=None):
        """Record one evaluated case.  `key` (default: the case) identifies it for distinctness."""
        self.evaluations += 1
        for c in classes:
            self.classes[c] += 1
        if nontrivial:
            h = case_hash(key if key is not None else case)
            if h not in self.nontrivial:
                self.nontrivial.add(h)
                if len(self.nt_samples) < MAX_SAMPLES and case is not None:
                    self.nt_samples.append(jsonable(case))
        elif len(self.samples) < 2 and case is not None:
            self.samples.append(jsonable(case))

    def cls(self, *names):
        for c in names:
            self.classes[c] += 1

    # ---- verdicts ---------------------------------------------------------------------------
    def fail(self, bucket, message, case=None, key=None):
        """Report a failed assertion.  `key` names a *specific* finding; if known_findings.jsonl
        lists it as known the failure is counted and execution continues, otherwise (or when no
        key applies) a Violation is raised unless the bucket has been muted by the driver."""
        if key is not None and key in self.known:
            self.known_hits[key] += 1
            self.known_examples.setdefault(key, jsonable(case))
            return
        full = "%s:%s:%s" % (self.prop, self.part, bucket)
        if full in self.muted:
            self.muted_hits[full] += 1
            raise Muted()
        raise Violation(full, message, jsonable(case))

    def check(self, cond, bucket, message, case=None, key=None):
        if not cond:
            self.fail(bucket, message, case, key)

    def summary(self):
        from . import util
        if util.ROUTE_ON:
            for k, n in util.ROUTES.items():
                self.classes["construction:" + k] = n
        return dict(part=self.part, evaluations=self.evaluations, nontrivial=self.nontrivial,
                    samples=self.samples, nt_samples=self.nt_samples, classes=self.classes,
                    known_hits=self.known_hits, known_examples=self.known_examples,
                    inconclusive=self.inconclusive, violations=self.violations,
                    muted_hits=self.muted_hits, extra=self.extra, exhaustive=self.exhaustive)


STRICT_EVERY = 8     # one case in STRICT_EVERY runs under the strict process configuration


def strict_case(case):
    """Deterministic in the case itself (for a history: in its initial state), so that a replay file re-creates the configuration."""
    mode = os.environ.get("VERIF_STRICT", "none")
    if mode != "some":
        return mode == "all"
    key = case["init"] if isinstance(case, dict) and "init" in case and "steps" in case else case
    try:
        h = hashlib.blake2b(json.dumps(key, sort_keys=True, default=jsonable).encode(), digest_size=2).digest()
    except (TypeError, ValueError):
        h = hashlib.blake2b(json.dumps(jsonable(key), sort_keys=True).encode(), digest_size=2).digest()
    return h[0] % STRICT_EVERY == 0


@contextlib.contextmanager
def proc_config(ctx, case):
    """Process-level configuration as an OPT-IN dimension (VERIF_STRICT=some|all; default none): numpy's floating-point error
    state set to 'raise' and Python warnings escalated to errors (python -W error, pytest filterwarnings=error).  It is off in
    the registered commands: the properties quantify over inputs and histories under the default configuration, and a
    behaviour-preserving change that merely emits a numpy RuntimeWarning must not be reported (DESIGN.md 9.7, round 5)."""
    if not strict_case(case):
        yield
        return
    import warnings
    import numpy as np
    ctx.classes["process-config:strict"] += 1
    with warnings.catch_warnings(), np.errstate(all="raise"):
        warnings.simplefilter("error")
        yield


def guarded(ctx, check, case):
    """Run one case.  Exceptions escaping the code under test are violations (bucketed by type
    and innermost repository frame); exceptions of the harness itself are harness errors."""
    try:
        with contextlib.redirect_stdout(_SINK), proc_config(ctx, case):     # the library prints warnings / progress straight to stdout
            check(ctx, case)
    except Muted:
        return
    except (Violation, Inconclusive, env.HarnessError):
        raise
    except (KeyboardInterrupt, SystemExit):
        raise
    except BaseException as e:  # noqa
        tb = traceback.extract_tb(e.__traceback__)
        inner = None
        for fr in tb:
            if env.in_repo(fr.filename):
                inner = fr
        last = tb[-1] if tb else None
        # numpy/matplotlib frames below a repository frame still count as the repository's failure
        if inner is not None and (last is None or not os.path.realpath(last.filename).startswith(env.VERIF + os.sep)):
            bucket = "exception:%s:%s" % (type(e).__name__, inner.name)
            try:
                ctx.fail(bucket, "unexpected %s in %s:%d: %s" % (type(e).__name__, os.path.basename(inner.filename), inner.lineno, e), case)
            except Muted:
                pass
            return
        raise env.HarnessError("harness failure in %s/%s on case %r:\n%s" % (
            ctx.prop, ctx.part, case, "".join(traceback.format_exception(type(e), e, e.__traceback__))))


class Part:
    def __init__(self, name, kind, check=None, cases=None, strategy=None, run=None,
                 examples=None, shards=None, exhaustive=False, replayable=True, chunk=None, shrink=True):
        self.name, self.kind, self.check = name, kind, check
        self.cases, self.strategy, self.run = cases, strategy, run
        self.examples = examples or {"quick": 200, "thorough": 2000}
        self.shards = shards or {"quick": 1, "thorough": 16}
        self.exhaustive = exhaustive
        self.chunk = chunk
        self.shrink = shrink      # False for parts whose cases cost seconds each: a failure is reported as generated


# ---------------------------------------------------------------------------------------------
# drivers

def _run_enum_chunk(args):
    modname, partname, tier, seed, idx, nshards, muted = args
    mod = __import__("vlc.props." + modname, fromlist=["x"])
    part = [p for p in mod.parts(tier) if p.name == partname][0]
    ctx = Ctx(mod.PROPERTY, partname, tier, seed)
    ctx.muted = set(muted)
    try:
        for i, case in enumerate(part.cases(tier, seed)):
            if i % nshards != idx:
                continue
            try:
                guarded(ctx, part.check, case)
            except Inconclusive:
                ctx.inconclusive += 1
            except Violation as v:
                ctx.violations.append(dict(bucket=v.bucket, message=v.message, case=v.case if v.case is not None else jsonable(case)))
                ctx.muted.add(v.bucket)
                if len(ctx.violations) >= MAX_BUCKETS:
                    break
    except env.HarnessError as e:
        return dict(harness_error=str(e))
    return ctx.summary()


def _run_hyp_shard(args):
    modname, partname, tier, seed, idx, nshards, n_examples = args
    import hypothesis
    from hypothesis import given, settings, HealthCheck, Phase
    mod = __import__("vlc.props." + modname, fromlist=["x"])
    part = [p for p in mod.parts(tier) if p.name == partname][0]
    ctx = Ctx(mod.PROPERTY, partname, tier, seed)
    from . import util
    util.ROUTE_ON = True
    strat = part.strategy(tier)
    shard_seed = seed * 1000 + idx
    phases = [Phase.generate, Phase.shrink]
    last = {}

    def body(case):
        last["case"] = case
        try:
            guarded(ctx, part.check, case)
        except Inconclusive:
            ctx.inconclusive += 1
        except Violation as v:
            last["violation"] = (v, case)
            raise

    try:
        for _round in range(MAX_BUCKETS):
            # only the first failure of a shard is shrunk (the shrinker may take minutes); further root causes are reported unshrunk
            phases = [Phase.generate, Phase.shrink] if (_round == 0 and part.shrink) else [Phase.generate]
            test = given(strat)(body)
            test = hypothesis.seed(shard_seed)(test)
            test = settings(max_examples=n_examples, deadline=None, database=None, derandomize=False,
                            report_multiple_bugs=False, phases=phases, print_blob=False,
                            suppress_health_check=list(HealthCheck))(test)
            try:
                test()
                break
            except Violation as v:
                case = v.case if v.case is not None else jsonable(last.get("case"))
                ctx.violations.append(dict(bucket=v.bucket, message=v.message, case=case, raw_case=jsonable(last.get("case"))))
                ctx.muted.add(v.bucket)
                last.pop("violation", None)
            except env.HarnessError:
                raise
            except Exception as e:   # noqa -- the library itself failed (e.g. while shrinking)
                if "violation" in last:
                    v, c = last.pop("violation")
                    ctx.violations.append(dict(bucket=v.bucket, message=v.message + " [unshrunk: %s in the generator library]" % type(e).__name__,
                                               case=v.case if v.case is not None else jsonable(c)))
                    ctx.muted.add(v.bucket)
                else:
                    return dict(harness_error="generator library: %s" % "".join(traceback.format_exception(type(e), e, e.__traceback__))[-3000:])
    except env.HarnessError as e:
        return dict(harness_error=str(e))
    return ctx.summary()


def _pool(n):
    import multiprocessing as mp
    return mp.get_context("fork").Pool(n)


def run_part(modname, mod, part, tier, seed, log):
    t0 = time.time()
    nshards = part.shards.get(tier, 1)
    if part.kind == "enum":
        jobs = [(modname, part.name, tier, seed, i, nshards, ()) for i in range(nshards)]
        fn = _run_enum_chunk
    elif part.kind == "hyp":
        n = part.examples.get(tier, 100)
        per = max(1, n // nshards)
        jobs = [(modname, part.name, tier, seed, i, nshards, per) for i in range(nshards)]
        fn = _run_hyp_shard
    elif part.kind == "custom":
        jobs = [(modname, part.name, tier, seed, i, nshards) for i in range(nshards)]
        fn = _run_custom_shard
    else:
        raise env.HarnessError("unknown part kind %r" % part.kind)
    # wall-clock guard against a part that cannot finish (never a verdict: harness error, exit 2)
    limit = int(os.environ.get("VERIF_PART_TIMEOUT", "1500" if tier == "quick" else "14400"))
    import multiprocessing as mp
    with _pool(min(nshards, os.cpu_count() or 1)) as pool:
        try:
            results = pool.map_async(fn, jobs, chunksize=1).get(timeout=limit)
        except mp.TimeoutError:
            pool.terminate()
            raise env.HarnessError("part %s of %s did not finish within %d s (inconclusive, not a verdict)" % (part.name, mod.PROPERTY, limit))
    for r in results:
        if "harness_error" in r:
            raise env.HarnessError(r["harness_error"])
    merged = merge(results)
    merged["wall_s"] = round(time.time() - t0, 2)
    merged["exhaustive"] = bool(part.exhaustive) and not merged["violations"]
    log("  part %-28s %7d cases  %6d non-trivial  %5.1fs%s" % (
        part.name, merged["evaluations"], len(merged["nontrivial"]), merged["wall_s"],
        "  VIOLATIONS=%d" % len(merged["violations"]) if merged["violations"] else ""))
    return merged


def _run_custom_shard(args):
    modname, partname, tier, seed, idx, nshards = args
    mod = __import__("vlc.props." + modname, fromlist=["x"])
    part = [p for p in mod.parts(tier) if p.name == partname][0]
    ctx = Ctx(mod.PROPERTY, partname, tier, seed)
    from . import util
    util.ROUTE_ON = True
    try:
        part.run(ctx, tier, seed * 1000 + idx, idx, nshards)
    except env.HarnessError as e:
        return dict(harness_error=str(e))
    return ctx.summary()


def merge(results):
    out = dict(evaluations=0, nontrivial=set(), samples=[], nt_samples=[], classes=Counter(),
               known_hits=Counter(), known_examples={}, inconclusive=0, violations=[],
               muted_hits=Counter(), extra={})
    seen = set()
    for r in results:
        out["evaluations"] += r["evaluations"]
        out["nontrivial"] |= r["nontrivial"]
        out["samples"] += r["samples"]
        out["nt_samples"] += r["nt_samples"]
        out["classes"] += r["classes"]
        out["known_hits"] += r["known_hits"]
        for k, v in r["known_examples"].items():
            out["known_examples"].setdefault(k, v)
        out["inconclusive"] += r["inconclusive"]
        out["muted_hits"] += r["muted_hits"]
        for v in r["violations"]:
            if v["bucket"] not in seen:
                seen.add(v["bucket"])
                out["violations"].append(v)
        for k, v in r.get("extra", {}).items():
            if isinstance(v, (int, float)) and not isinstance(v, bool):
                out["extra"][k] = out["extra"].get(k, 0) + v
            elif isinstance(v, list):
                out["extra"].setdefault(k, [])
                out["extra"][k] = (out["extra"][k] + v)[:20]
            elif isinstance(v, set):
                out["extra"].setdefault(k, set())
                out["extra"][k] |= v
            else:
                out["extra"][k] = v
    return out


# ---------------------------------------------------------------------------------------------
# top level

def write_replay(prop, part, v, idx):
    d = os.path.join(os.environ.get("VERIF_REPLAY_DIR") or os.path.join(env.VERIF, "replay"), prop)
    os.makedirs(d, exist_ok=True)
    name = "%s-%s-%s.json" % (part, hashlib.blake2b(v["bucket"].encode(), digest_size=4).hexdigest(), idx)
    path = os.path.join(d, name)
    with open(path, "w") as f:
        json.dump(dict(property=prop, part=part, bucket=v["bucket"], message=v["message"], case=v["case"]), f, indent=1, sort_keys=True)
    return os.path.relpath(path, env.VERIF) if path.startswith(env.VERIF + os.sep) else path


def run_property(modname, tier, seed, only_parts=None, out=sys.stdout):
    t0 = time.time()
    mod = __import__("vlc.props." + modname, fromlist=["x"])
    prop = mod.PROPERTY
    known, _all = load_known()

    def log(s):
        print(s, file=out, flush=True)

    log("== %s  tier=%s seed=%d repo=%s" % (prop, tier, seed, env.REPO))
    env.lc()
    per_part = {}
    total = merge([])
    for part in mod.parts(tier):
        if only_parts and part.name not in only_parts:
            continue
        m = run_part(modname, mod, part, tier, seed, log)
        per_part[part.name] = m
        total = merge([dict(total, part="*"), dict(m, part=part.name)])
    # ---- verdict lines
    nviol = 0
    for pname, m in per_part.items():
        for i, v in enumerate(m["violations"]):
            path = write_replay(prop, pname, v, i)
            nviol += 1
            log("VIOLATION property=%s replay=%s" % (prop, path))
            log("   bucket=%s\n   %s\n   case=%s" % (v["bucket"], v["message"], json.dumps(v["case"])[:600]))
    for key, n in sorted(total["known_hits"].items()):
        e = known.get(key, {})
        log("KNOWN-FINDING: property=%s %s [%s; %d generated cases hit it, e.g. %s]" % (
            prop, e.get("what", key), key, n, json.dumps(total["known_examples"].get(key))[:200]))
    # ---- evidence
    samples = (total["nt_samples"][:MAX_SAMPLES] + total["samples"][:2]) or [None]
    cov = dict(
        evaluations=int(total["evaluations"]),
        distinct_nontrivial=len(total["nontrivial"]),
        rule=mod.RULE,
        samples=samples,
        exhaustive=all(per_part[p]["exhaustive"] for p in per_part) if per_part else False,
        exhaustive_parts=sorted(p for p in per_part if per_part[p]["exhaustive"]),
        parts={p: dict(evaluations=m["evaluations"], distinct_nontrivial=len(m["nontrivial"]), wall_s=m["wall_s"],
                       exhaustive=m["exhaustive"], classes=dict(sorted(m["classes"].items())),
                       samples=(m["nt_samples"][:3] or m["samples"][:2]),
                       extra=jsonable(m["extra"]))
               for p, m in per_part.items()},
        classes=dict(sorted(total["classes"].items())),
        known_finding_hits={k: int(v) for k, v in total["known_hits"].items()},
        muted_bucket_hits={k: int(v) for k, v in total["muted_hits"].items()},
        inconclusive=int(total["inconclusive"]),
        repo=env.REPO,
    )
    ev = dict(property_id=prop, tier=tier, seed=int(seed), level="exploration", coverage=cov,
              assumptions=list(getattr(mod, "ASSUMPTIONS", [])), wall_s=round(time.time() - t0, 2),
              violations=nviol)
    evdir = os.environ.get("VERIF_EVIDENCE_DIR") or os.path.join(env.VERIF, "evidence")
    os.makedirs(evdir, exist_ok=True)
    with open(os.path.join(evdir, prop + ".json"), "w") as f:
        json.dump(jsonable(ev), f, indent=1, sort_keys=True)
    log("== %s %s: %d cases, %d distinct non-trivial, %d violation bucket(s), %d known-finding hit(s), %.1fs" % (
        prop, "FAILED" if nviol else "held", cov["evaluations"], cov["distinct_nontrivial"], nviol,
        sum(total["known_hits"].values()), time.time() - t0))
    return 1 if nviol else 0


def replay(modname, path, out=sys.stdout):
    mod = __import__("vlc.props." + modname, fromlist=["x"])
    d = json.load(open(path))
    env.lc()
    tier = "quick"
    part = [p for p in mod.parts("quick") if p.name == d["part"]] or [p for p in mod.parts("thorough") if p.name == d["part"]]
    if not part:
        raise env.HarnessError("replay file names unknown part %r" % d["part"])
    part = part[0]
    ctx = Ctx(mod.PROPERTY, part.name, tier, 0)
    from . import util
    util.ROUTE_ON = part.kind != "enum"
    check = part.check
    if check is None:
        check = getattr(mod, "replay_" + part.name.replace("-", "_"))
    try:
        guarded(ctx, check, d["case"])
    except Violation as v:
        print("VIOLATION property=%s replay=%s" % (mod.PROPERTY, path), file=out)
        print("   bucket=%s\n   %s" % (v.bucket, v.message), file=out)
        return 1
    except Inconclusive:
        print("inconclusive (budget hit) on replay", file=out)
        return 0
    for key, n in ctx.known_hits.items():
        print("KNOWN-FINDING: property=%s %s" % (mod.PROPERTY, ctx.known.get(key, {}).get("what", key)), file=out)
    print("replay passed: %s" % path, file=out)
    return 0
