"""Regenerate MANIFEST.json from the property modules that exist (run by hand: /venv/bin/python -m vlc.mkmanifest)."""
import importlib
import json
import os

from . import env

TITLES = {}
for line in open(os.path.join(env.VERIF, "properties.jsonl")):
    p = json.loads(line)
    TITLES[p["id"]] = p["title"]

SETUP = ("/venv/bin/python -c 'import hypothesis' 2>/dev/null || /venv/bin/pip install -q --no-index --find-links "
         "/opt/veriftools/wheels hypothesis; "
         "/venv/bin/pip install -q --no-index --find-links /opt/veriftools/wheels --target /verif/.deps atheris "
         ">/dev/null 2>&1 || echo 'atheris not installed: fuzz parts will be skipped'; "
         "/venv/bin/python -B -m vlc.selfcheck")


def main():
    checks, na = [], []
    for pid in sorted(TITLES):
        try:
            mod = importlib.import_module("vlc.props." + pid.lower())
        except ModuleNotFoundError:
            na.append(dict(property_id=pid, reason="check not built yet (work in progress; see DESIGN.md section 4 for the planned oracle)"))
            continue
        checks.append(dict(
            property_id=pid,
            quick_cmd="./check %s --tier quick" % pid,
            thorough_cmd="./check %s --tier thorough" % pid,
            evidence_file="evidence/%s.json" % pid,
            replay_cmd_template="./check %s --replay {path}" % pid,
            engine="vlc",
            level_claimed=dict(category="exploration", text=mod.LEVEL_TEXT, design_ref="DESIGN.md section 4, " + pid),
            level_note=mod.LEVEL_NOTE,
            technique=mod.TECHNIQUE,
        ))
    man = dict(
        version=1,
        setup_cmd=SETUP,
        hooks=dict(guard="LOCALCIDER_VERIF",
                   enable="no source hooks: checks import /repo's working tree directly (sys.path) and instrument it "
                          "from outside (module-attribute rebinding of the `rng` name, class-level wrappers, matplotlib "
                          "recorders); LOCALCIDER_VERIF=1 is exported by ./check and read by nothing in /repo",
                   baseline_off_cmd="cd /repo && /venv/bin/python -m pytest -ra -q -p no:cacheprovider --timeout=900 "
                                    "--continue-on-collection-errors",
                   source_commits=[], add_only=True),
        engines=[dict(name="vlc", path="vlc/", serves_properties=[c["property_id"] for c in checks],
                      kind_free_text="Hypothesis 6.168 (stateless @given + stateful histories), exhaustive enumeration of "
                                     "bounded finite sub-domains on a 16-process pool, atheris/libFuzzer for the two text "
                                     "front-ends; oracles in vlc/ref.py; see DESIGN.md")],
        checks=checks,
        notes="All checks: exit 0 held / exit 1 VIOLATION line / exit 2 harness error. Known findings and fixes are in "
              "known_findings.jsonl. VERIF_SEED selects the run; VERIF_REPO may point the checks at a scratch copy "
              "(mutation self-test only).",
        not_applicable=na,
    )
    with open(os.path.join(env.VERIF, "MANIFEST.json"), "w") as f:
        json.dump(man, f, indent=1)
    print("MANIFEST.json: %d checks, %d not claimed" % (len(checks), len(na)))


if __name__ == "__main__":
    main()
