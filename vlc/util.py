"""Small helpers shared by property modules (no Hypothesis, no localcider import at module level)."""
import itertools
import os
import random
import zlib
from collections import Counter

from . import env, ref


def spell(pat, rnd):
    """Spell a +/-/0 pattern with residues of the right class chosen by `rnd` (a random.Random)."""
    out = []
    for c in pat:
        if c in (1, "+"):
            out.append(rnd.choice(ref.POS))
        elif c in (-1, "-"):
            out.append(rnd.choice(ref.NEG))
        else:
            out.append(rnd.choice(ref.NEUTRAL))
    return "".join(out)


def all_patterns(min_len, max_len):
    for n in range(min_len, max_len + 1):
        for p in itertools.product("+-0", repeat=n):
            yield "".join(p)


def spelled_patterns(min_len, max_len, seed):
    """Every +/-/0 pattern of the given lengths with a seed-determined spelling: yields (pattern, sequence)."""
    rnd = random.Random(seed)
    for p in all_patterns(min_len, max_len):
        yield p, spell(p, rnd)


def all_compositions(max_len, min_len=1):
    for N in range(min_len, max_len + 1):
        for P in range(N + 1):
            for M in range(N - P + 1):
                yield (P, M, N - P - M)


def arrange(P, M, Z, rnd):
    pat = ["+"] * P + ["-"] * M + ["0"] * Z
    rnd.shuffle(pat)
    return "".join(pat)


ROUTE_ON = False          # switched on by the drivers of generated (non-exhaustive) parts and by their replays
ROUTES = Counter()
_STD = frozenset("ACDEFGHIKLMNPQRSTVWY")
ROUTE_EVERY = 8


def sp(seq):
    """SequenceParameters for `seq` from the tree under test.  In generated (non-exhaustive) parts one clean upper-case word in
    ROUTE_EVERY (a deterministic function of the word, so replays agree) is handed over through the constructor's other
    argument, SeqObj=, as a backend Sequence built from the lower-case or mixed-case spelling of the same word (half of them with the
    backend constructor's defaults dmax=-1, chargePattern=[] spelled out): the result
    must be the same object as far as every property is concerned."""
    SPc = env.SP()
    if ROUTE_ON and type(seq) is str and seq and _STD.issuperset(seq):
        forced = os.environ.get("VERIF_ROUTE", "")
        r = zlib.crc32(seq.encode()) % (2 * ROUTE_EVERY)
        if forced == "seqobj" or (forced == "" and r < 2):
            from localcider.backend.sequence import Sequence
            text = seq.lower() if r % 2 == 0 else "".join(c.lower() if i % 2 else c for i, c in enumerate(seq))
            ROUTES["SeqObj=Sequence(lower-case text)" if r % 2 == 0 else "SeqObj=Sequence(mixed-case text)"] += 1
            if (zlib.crc32(seq.encode()) >> 8) % 2:
                # the backend constructor's own defaults spelled out by the caller (dmax=-1, chargePattern=[]): still the same object
                ROUTES["SeqObj=Sequence(text, -1, []) defaults spelled out"] += 1
                return SPc(SeqObj=Sequence(text, -1, []))
            return SPc(SeqObj=Sequence(text))
    ROUTES["string"] += 1
    return SPc(seq)


def exc_name(fn, *a, **k):
    """(True, result) or (False, exception type name)."""
    try:
        return True, fn(*a, **k)
    except Exception as e:   # noqa
        return False, type(e).__name__


def warm(o, calls):
    """Execute a generated warm-up history on an object (exceptions ignored: e.g. a window longer than the sequence).
    Every property is stated for 'the object', not for a fresh object, so its check may be preceded by any other API calls."""
    for c in calls or ():
        name, args = c[0], list(c[1]) if len(c) > 1 and c[1] is not None else []
        if name.startswith("plot:"):
            try:
                import matplotlib.pyplot as plt
                getattr(o, name[5:])(getFig=True, **dict(c[1] or {}))
                plt.close("all")
            except Exception:   # noqa
                pass
            continue
        if name == "phospho_cycle":
            # set up to k real S/T/Y sites, ask for the phosphorylated kappa, optionally clear again
            try:
                sites = list(o.get_all_phosphorylatable_sites())[:max(1, int(args[0]))]
                if sites:
                    o.set_phosphosites(sites)
                    o.get_kappa_after_phosphorylation()
                    if len(args) > 1 and args[1]:
                        o.clear_phosphosites()
            except Exception:   # noqa
                pass
            continue
        if name == "get_kappa_X":
            args = [list(a) if a is not None else None for a in args]
        elif name == "get_reduced_alphabet_sequence" and len(args) > 1:
            args = [args[0], dict(args[1])]
        elif name == "get_linear_complexity" and len(args) > 2 and isinstance(args[2], dict):
            args = list(args[:2]) + [dict(args[2])] + list(args[3:])
        elif name == "get_linear_sequence_composition" and len(args) > 1:
            args = [args[0], [list(g) for g in args[1]]]
        elif name == "set_HTMLColorResiduePalette":
            args = [dict(args[0])]
        try:
            if name == "get_full_phosphostatus_kappa_distribution" and len(o.get_phosphosites()) > 5:
                continue          # 2^k kappa calculations: a warm-up must stay cheap
            getattr(o, name)(*args)
        except Exception:   # noqa
            pass
    return o


def spw(seq, case):
    """SequenceParameters(seq) after the case's warm-up history (if any)."""
    if isinstance(case, dict) and case.get("paste") is not None:
        seq = pasted_k(seq, case["paste"])       # the same residues as they arrive from a paste (lower case / stripped whitespace)
    return warm(sp(seq), case.get("warm") if isinstance(case, dict) else None)


def arrange_blocky(P, M, Z, rnd):
    """A segregated arrangement: one positive block, one negative block (either order), the neutrals split at random between
    start, middle and end (the shape of the documented delta-max candidates, without their restrictions)."""
    s = rnd.randint(0, Z)
    m = rnd.randint(0, Z - s)
    e = Z - s - m
    a, b = ("+" * P, "-" * M) if rnd.random() < 0.5 else ("-" * M, "+" * P)
    return "0" * s + a + "0" * m + b + "0" * e


def pasted(seq, rnd):
    return pasted_k(seq, rnd.randrange(7))


def pasted_k(seq, k):
    """A documented alternative spelling of the same sequence as it arrives from a paste: lower case and/or the whitespace the
    constructor strips (trailing newline, blocks of ten, wrapped lines, tabs, leading blanks)."""
    if k == 0:
        return seq + "\n"
    if k == 1:
        return " ".join(seq[i:i + 10] for i in range(0, len(seq), 10))
    if k == 2:
        return "\n".join(seq[i:i + 60] for i in range(0, len(seq), 60)) + "\n"
    if k == 3:
        return "  " + seq
    if k == 4:
        return seq[:len(seq) // 2] + "\t" + seq[len(seq) // 2:]
    if k == 5:
        return seq.lower()
    return "\r\n".join(seq.lower()[i:i + 7] for i in range(0, len(seq), 7))


def shuffled_child(o, spec):
    """get_shuffled_sequence() of a live object with the library's PRNG owned by the harness (spec = {"tape": int, "frozen": [...]}):
    the child is a sequence object like any other, so every property applies to it with its own sequence."""
    from . import tape
    n = len(o.get_sequence())
    frozen = set(int(i) for i in (spec.get("frozen") or []) if 0 <= int(i) < n)
    with tape.installed(tape.Tape(int(spec.get("tape", 0)))):
        return o.get_shuffled_sequence(frozen) if frozen else o.get_shuffled_sequence()
