"""Small helpers shared by property modules (no Hypothesis, no localcider import at module level)."""
import itertools
import random

from . import env, ref


def spell(pat, rnd):
    """Spell a +/-/0 pattern with residues of the right class chosen by `rnd` (a random.Random)."""
    out = []
    for c in pat:
        if c in (1, "+"):
            out.append(rnd.choice(ref.POS))
        elif c in (-1, "-"):
            out.append(rnd.choice(ref.NEG))
        else:
            out.append(rnd.choice(ref.NEUTRAL))
    return "".join(out)


def all_patterns(min_len, max_len):
    for n in range(min_len, max_len + 1):
        for p in itertools.product("+-0", repeat=n):
            yield "".join(p)


def spelled_patterns(min_len, max_len, seed):
    """Every +/-/0 pattern of the given lengths with a seed-determined spelling: yields (pattern, sequence)."""
    rnd = random.Random(seed)
    for p in all_patterns(min_len, max_len):
        yield p, spell(p, rnd)


def all_compositions(max_len, min_len=1):
    for N in range(min_len, max_len + 1):
        for P in range(N + 1):
            for M in range(N - P + 1):
                yield (P, M, N - P - M)


def arrange(P, M, Z, rnd):
    pat = ["+"] * P + ["-"] * M + ["0"] * Z
    rnd.shuffle(pat)
    return "".join(pat)


def sp(seq):
    """SequenceParameters(seq) from the tree under test."""
    return env.SP()(seq)


def exc_name(fn, *a, **k):
    """(True, result) or (False, exception type name)."""
    try:
        return True, fn(*a, **k)
    except Exception as e:   # noqa
        return False, type(e).__name__
