"""Regenerates vlc/near_ties.json: compositions (n+, n-, n0), 20 <= N <= HI, whose documented delta-max candidate family holds a
runner-up within 1e-5 (relative; numpy's default isclose tolerance) of the maximum without being an exact tie (> 1e-12).  These are the compositions on which a
tolerance-based early exit, a changed tie-break or a re-ordered search would report a value other than the family maximum.
Derived from vlc/ref.py alone (never from the library).  Usage: /venv/bin/python -B -m vlc.mk_near_ties [HI]"""
import json
import multiprocessing
import os
import sys

import numpy as np

from . import ref


def fast_delta(pats):
    """float delta of each row of an int8 matrix of +1/-1/0 (vectorised sliding blobs)."""
    pats = np.asarray(pats, dtype=np.int64)
    n, N = pats.shape
    pos = (pats > 0).astype(np.int64); neg = (pats < 0).astype(np.int64)
    P = pos.sum(1); M = neg.sum(1)
    s = np.where(P + M > 0, (P - M) ** 2 / (N * np.maximum(P + M, 1)), 0.0)
    out = np.zeros(n)
    cp = np.concatenate([np.zeros((n, 1), np.int64), pos.cumsum(1)], 1)
    cn = np.concatenate([np.zeros((n, 1), np.int64), neg.cumsum(1)], 1)
    for w in (5, 6):
        if N - w + 1 <= 0:
            continue
        p = cp[:, w:] - cp[:, :-w]; m = cn[:, w:] - cn[:, :-w]
        b = np.where(p + m > 0, (p - m) ** 2 / (w * np.maximum(p + m, 1)), 0.0)
        out += ((s[:, None] - b) ** 2).mean(1)
    return out / 2


def scan(N):
    found = []
    for P in range(0, N + 1):
        for M in range(0, N - P + 1):
            Z = N - P - M
            if P + M == 0 or P < M:     # inversion-symmetric: keep P >= M
                continue
            for cands in ref.family(P, M, Z):
                d = np.sort(fast_delta([ref.pat_from_str(c) for c in cands]))[::-1]
                top = d[0]
                if top <= 0:
                    continue
                rel = (top - d) / top
                near = rel[(rel > 1e-12) & (rel < 1e-5)]
                if near.size:
                    found.append([P, M, Z])
                    break
    return found


def main():
    hi = int(sys.argv[1]) if len(sys.argv) > 1 else 160
    with multiprocessing.Pool(16) as pool:
        res = pool.map(scan, range(20, hi + 1), chunksize=1)
    rows = [r for rr in res for r in rr]
    path = os.path.join(os.path.dirname(__file__), "near_ties.json")
    json.dump({"hi": hi, "rule": "runner-up of the documented candidate family within (1e-12, 1e-5) relative of its maximum; n+ >= n- (mirror by inversion)", "rows": rows},
              open(path, "w"), separators=(",", ":"))
    print(len(rows), "near-tie compositions up to N =", hi)


if __name__ == "__main__":
    main()
