"""Run by setup_cmd: verifies the framework can import its dependencies and the tree under test."""
import sys

from . import env


def main():
    import hypothesis  # noqa
    import numpy  # noqa
    import matplotlib  # noqa
    env.lc()
    try:
        import atheris  # noqa
        a = "atheris ok"
    except Exception as e:   # noqa
        a = "atheris unavailable (%s): fuzz parts are skipped" % type(e).__name__
    print("vlc selfcheck: hypothesis %s, repo %s, %s" % (hypothesis.__version__, env.REPO, a))


if __name__ == "__main__":
    sys.exit(main())
