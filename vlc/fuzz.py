"""atheris (libFuzzer for Python) campaigns.  Parent side: campaign(); child side: python -m vlc.fuzz <module> <outdir> [libFuzzer args].

The semantic oracle lives inside the target (the property module's fuzz_target(data) -> Ctx, raising core.Violation); the child
keeps running totals in <outdir>/stats.json (atexit does not run under libFuzzer) and writes <outdir>/violation.json before it lets
the exception escape, so that the parent can turn the saved input into an ordinary replay file."""
import json
import os
import shutil
import subprocess
import sys
import tempfile

from . import env


def available():
    try:
        import atheris  # noqa
        return True
    except Exception:   # noqa
        return False


def campaign(ctx, modname, seed, idx, runs, corpus, decode, max_len=64, timeout=1500, extra_args=()):
    out = tempfile.mkdtemp(prefix="vlc-fuzz-%s-" % modname)
    try:
        cdir = os.path.join(out, "corpus")
        os.makedirs(cdir)
        for i, b in enumerate(corpus):
            with open(os.path.join(cdir, "seed%d" % i), "wb") as f:
                f.write(b)
        e = dict(os.environ, PYTHONPATH=os.pathsep.join([env.VERIF, os.path.join(env.VERIF, ".deps"), os.environ.get("PYTHONPATH", "")]))
        # atheris-instrumented code leaks ~30 kB per execution here, so a campaign is a chain of fresh processes sharing one corpus
        per = 15000
        done = 0
        rnd = 0
        while done < runs:
            n = min(per, runs - done)
            sp = os.path.join(out, "stats.json")
            if os.path.exists(sp):
                os.remove(sp)
            cmd = [sys.executable, "-B", "-W", "ignore", "-m", "vlc.fuzz", modname, out,
                   "-runs=%d" % n, "-seed=%d" % ((seed * 31 + rnd) % (2 ** 31) or 1), "-max_len=%d" % max_len, "-print_final_stats=0",
                   "-rss_limit_mb=4096", "-artifact_prefix=%s/" % out] + list(extra_args) + [cdir]
            r = subprocess.run(cmd, cwd=env.VERIF, env=e, capture_output=True, text=True, timeout=timeout)
            stats = json.load(open(sp)) if os.path.exists(sp) else {}
            ctx.evaluations += stats.get("evaluations", 0)
            ctx.nontrivial |= set(stats.get("nontrivial", []))
            for k, v in stats.get("classes", {}).items():
                ctx.classes[k] += v
            if len(ctx.nt_samples) < 4:
                ctx.nt_samples += stats.get("samples", [])[:2]
            ctx.extra["fuzz_execs"] = ctx.extra.get("fuzz_execs", 0) + stats.get("evaluations", 0)
            ctx.extra["fuzz_corpus_" + ("seeded" if corpus else "empty")] = len(os.listdir(cdir))
            vp = os.path.join(out, "violation.json")
            if os.path.exists(vp):
                v = json.load(open(vp))
                ctx.violations.append(dict(bucket=v["bucket"], message=v["message"], case=v["case"]))
                break
            if r.returncode != 0:
                raise env.HarnessError("fuzz child for %s exited %d:\n%s" % (modname, r.returncode, (r.stderr or r.stdout)[-2500:]))
            done += n
            rnd += 1
    finally:
        shutil.rmtree(out, ignore_errors=True)


def child(argv):
    modname, out = argv[1], argv[2]
    hyp_part = None
    if ":" in modname:
        # "<module>:<hyp part>": coverage-guided generation of that part's STRUCTURED cases (Hypothesis strategy driven by libFuzzer bytes)
        modname, hyp_part = modname.split(":", 1)
    import atheris
    from . import core
    with atheris.instrument_imports(include=["localcider"]):
        env.lc()
        import localcider.sequenceParameters  # noqa
        import localcider.backend.seqfileparser  # noqa
    mod = __import__("vlc.props." + modname, fromlist=["x"])
    stats = dict(evaluations=0, nontrivial=set(), classes={}, samples=[])
    if hyp_part:
        return child_hyp(argv, mod, hyp_part, out, stats)

    def dump():
        with open(os.path.join(out, "stats.json.tmp"), "w") as f:
            json.dump(dict(evaluations=stats["evaluations"], nontrivial=sorted(stats["nontrivial"])[:200000], classes=stats["classes"],
                           samples=stats["samples"]), f)
        os.replace(os.path.join(out, "stats.json.tmp"), os.path.join(out, "stats.json"))

    sink = core._SINK
    import contextlib

    def one(data):
        try:
            with contextlib.redirect_stdout(sink):
                c = mod.fuzz_target(data)
        except core.Violation as v:
            with open(os.path.join(out, "violation.json"), "w") as f:
                json.dump(dict(bucket=v.bucket, message=v.message, case=v.case), f)
            dump()
            raise
        except core.Inconclusive:
            return
        stats["evaluations"] += 1
        stats["nontrivial"] |= c.nontrivial
        for k, n in c.classes.items():
            stats["classes"][k] = stats["classes"].get(k, 0) + n
        if c.nt_samples and len(stats["samples"]) < 6:
            stats["samples"].append(c.nt_samples[0])
        if stats["evaluations"] % 500 == 0:
            dump()

    dump()
    atheris.Setup([argv[0]] + argv[3:], one)
    atheris.Fuzz()


def child_hyp(argv, mod, partname, out, stats):
    import contextlib
    import atheris
    from hypothesis import given, settings, HealthCheck
    from . import core
    part = [p for p in mod.parts("thorough") if p.name == partname][0]
    ctx = core.Ctx(mod.PROPERTY, "atheris-" + partname, "thorough", 0)
    n = [0]

    def dump():
        with open(os.path.join(out, "stats.json.tmp"), "w") as f:
            json.dump(dict(evaluations=ctx.evaluations, nontrivial=sorted(ctx.nontrivial)[:200000], classes=dict(ctx.classes), samples=ctx.nt_samples[:4]), f)
        os.replace(os.path.join(out, "stats.json.tmp"), os.path.join(out, "stats.json"))

    @settings(deadline=None, database=None, suppress_health_check=list(HealthCheck))
    @given(part.strategy("thorough"))
    def body(case):
        try:
            with contextlib.redirect_stdout(core._SINK):
                core.guarded(ctx, part.check, case)
        except core.Violation as v:
            with open(os.path.join(out, "violation.json"), "w") as f:
                json.dump(dict(bucket=v.bucket, message=v.message, case=v.case if v.case is not None else core.jsonable(case)), f)
            dump()
            raise
        except core.Inconclusive:
            pass
        n[0] += 1
        if n[0] % 500 == 0:
            dump()

    dump()
    atheris.Setup([argv[0]] + argv[3:], body.hypothesis.fuzz_one_input)
    atheris.Fuzz()


def hyp_campaign(ctx, modname, partname, seed, idx, runs, max_len=512):
    """Coverage-guided search over a hyp part's structured cases (thorough tier only)."""
    campaign(ctx, "%s:%s" % (modname, partname), seed, idx, runs=runs, corpus=[], decode=None, max_len=max_len)


if __name__ == "__main__":
    child(sys.argv)
