"""Environment set-up shared by every check process.

* puts the repository's *working tree* first on sys.path (VERIF_REPO overrides /repo: used only
  by the mutation self-test to point the same checks at a scratch copy);
* refuses to run if `localcider` was imported from anywhere else (exit code 2 = harness error);
* headless matplotlib, no byte-code, quiet library.
"""
import os
import sys
import warnings

REPO = os.path.realpath(os.environ.get("VERIF_REPO", "/repo"))
VERIF = os.path.realpath(os.path.join(os.path.dirname(os.path.abspath(__file__)), ".."))

sys.dont_write_bytecode = True
os.environ.setdefault("MPLBACKEND", "Agg")
os.environ.setdefault("LOCALCIDER_VERIF", "1")
# numpy/BLAS threads only get in the way of the process pool
for _v in ("OMP_NUM_THREADS", "OPENBLAS_NUM_THREADS", "MKL_NUM_THREADS"):
    os.environ.setdefault(_v, "1")

warnings.filterwarnings("ignore", category=SyntaxWarning)
warnings.filterwarnings("ignore", category=DeprecationWarning)

# drop every other route to a localcider package, then put the tree first
sys.path[:] = [p for p in sys.path if os.path.realpath(p or ".") != REPO]
sys.path.insert(0, REPO)
_deps = os.path.join(VERIF, ".deps")
if os.path.isdir(_deps) and _deps not in sys.path:
    sys.path.append(_deps)


class HarnessError(BaseException):
    """Something is wrong with the machinery, not with the code under test (exit code 2).
    A BaseException so that Hypothesis lets it through instead of shrinking it as a failure."""


def load():
    """Import localcider from the working tree and return the commonly used names."""
    for name in list(sys.modules):
        if name == "localcider" or name.startswith("localcider."):
            del sys.modules[name]
    import localcider  # noqa: F401
    here = os.path.realpath(os.path.dirname(localcider.__file__))
    if os.path.dirname(here) != REPO:
        raise HarnessError("localcider imported from %s, expected the tree at %s" % (here, REPO))
    from localcider.backend import config
    # the library prints through backendtools.*_message guarded by these flags
    config.HUSH_ALL = True
    from localcider.backend import backendtools
    backendtools.HUSH_ALL = True
    return localcider


_lc = None


def lc():
    global _lc
    if _lc is None:
        _lc = load()
    return _lc


def SP():
    lc()
    from localcider.sequenceParameters import SequenceParameters
    return SequenceParameters


def in_repo(path):
    try:
        return os.path.realpath(path).startswith(REPO + os.sep)
    except Exception:
        return False
