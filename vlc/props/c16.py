"""C16 — phosphosites are exactly the requested in-range S/T/Y; derived values follow."""
import itertools

from hypothesis import strategies as st

from .. import gens, ref, stateful, util
from ..core import Part

PROPERTY = "C16"
RULE = ("stateful: per sequence (N<=24, S/T/Y-rich, S/T/Y-free and mixed classes) a history of up to 12 (quick) / 25 (thorough) calls from "
        "{set_phosphosites(x) with x an int, list or tuple of ints drawn from [-N-3, N+3] U {+-10^6} with duplicates, clear_phosphosites(), "
        "kappa read-out, full distribution read-out (<=4 sites)}; after every step the model (ordered list without repeats of requested "
        "positions p with 1<=p<=N holding S/T/Y) is compared with get_phosphosites(), the stored sequence, get_phosphosequence() and "
        "get_all_phosphorylatable_sites(); the kappa op compares get_kappa_after_phosphorylation() with a fresh object on the substituted "
        "string; the distribution op requires 2^k entries in binary counting order (first-set site most significant) each carrying the six "
        "values of a fresh object on the correspondingly substituted string. set_phosphosites may also be given the same caller-owned list object again after it was refilled or grown in place; plain queries (kappa, delta-max, ...) are interleaved. Non-trivial: history with an out-of-range, non-STY or duplicate "
        "position, or a clear followed by a set; distinct by (sequence, history).")
ASSUMPTIONS = ["positions are Python ints (the documented argument type)", "status tuples may spell bits as '0'/'1' or 0/1", "tolerance 1e-9 on the derived floats"]
TECHNIQUE = "Hypothesis stateful testing (RuleBasedStateMachine) against a reference model of the phosphosite list; derived values checked differentially against freshly built objects"
LEVEL_TEXT = "Exploration of set/clear/read histories with arbitrary integer positions on short sequences; model comparison after every step."
LEVEL_NOTE = "Model = the statement's filter (in range, S/T/Y, first-set order, no repeats)."


class Sim:
    def __init__(self, ctx, init):
        self.ctx = ctx
        self.seq = init["seq"]
        self.o = util.sp(self.seq)
        self.model = []
        self.buf = []            # a caller-owned list that is refilled in place and passed again
        self.long = bool(init.get("long"))
        self.flags = set()
        self.cleared = False
        self.nsteps = 0
        self.verify("init")
        if init.get("script"):
            # set every site (in the drawn order) and read the whole distribution: each partial phosphorylation is one of its states
            self.apply("set", {"kind": "list", "vals": list(init["script"])})
            self.apply("dist", None)

    def case(self):
        return None     # the driver attaches the history

    def phos_string(self, sites):
        lst = list(self.seq)
        for p in sites:
            lst[p - 1] = "E"
        return "".join(lst)

    def verify(self, after):
        c, o = self.ctx, self.o
        got = o.get_phosphosites()
        c.check(list(got) == self.model, "phosphosites", "after %s: get_phosphosites()=%r, model %r (sequence %s)" % (after, got, self.model, self.seq))
        c.check(o.get_sequence() == self.seq, "sequence-changed", "after %s: stored sequence became %r" % (after, o.get_sequence()))
        ps = o.get_phosphosequence()
        c.check(ps == self.phos_string(self.model), "phosphosequence", "after %s: get_phosphosequence()=%r, expected %r" % (after, ps, self.phos_string(self.model)))
        sty = o.get_all_phosphorylatable_sites()
        want = [i + 1 for i, r in enumerate(self.seq) if r in ref.STY]
        c.check(list(sty) == want, "all-sites", "get_all_phosphorylatable_sites()=%r, expected %r" % (sty, want))

    def apply(self, op, args):
        self.nsteps += 1
        N = len(self.seq)
        if op == "set":
            vals = args["vals"]
            if self.long:
                # many positions at once (all over the sequence), with repeats inside the same call
                rnd_ = __import__("random").Random(len(self.model) * 7919 + sum(vals))
                vals = [rnd_.randint(1, N) for _ in range(40)] + vals
                vals = vals + vals[:3]
            if args["kind"] == "shared-list":
                if args.get("grow"):
                    self.buf.extend(vals)        # grow the same list object
                else:
                    self.buf[:] = vals           # refill the same list object
                arg = self.buf
                vals = list(self.buf)
                self.flags.add("shared-list")
            else:
                arg = vals[0] if args["kind"] == "int" else (tuple(vals) if args["kind"] == "tuple" else list(vals))
            if args["kind"] == "int":
                vals = vals[:1]
            if self.cleared:
                self.flags.add("set-after-clear")
            for p in vals:
                if not (1 <= p <= N):
                    self.flags.add("out-of-range")
                elif self.seq[p - 1] not in ref.STY:
                    self.flags.add("non-STY")
                elif p in self.model:
                    self.flags.add("duplicate")
                else:
                    self.model.append(p)
            self.o.set_phosphosites(arg)
            self.verify("set_phosphosites(%r)" % (list(arg) if isinstance(arg, list) else arg,))
            if args.get("check_kappa") and len(self.model) >= 3 and not self.long:
                self.apply_kappa()
        elif op == "clear":
            self.model = []
            self.cleared = True
            self.o.clear_phosphosites()
            self.verify("clear_phosphosites()")
        elif op == "query" and self.long:
            self.verify("(long sequence: query skipped)")
        elif op == "query":
            # other read-only queries in between (they may fill caches) must not disturb the phospho state or its derived values
            try:
                getattr(self.o, args["q"])()
            except Exception:   # noqa
                pass
            self.verify(args["q"])
            self.flags.add("interleaved-query")
        elif op == "kappa":
            if not self.long:
                self.apply_kappa()
        elif op == "dist":
            k = len(self.model)
            if k > 4:
                return
            dist = self.o.get_full_phosphostatus_kappa_distribution()
            self.ctx.check(len(dist) == 2 ** k, "dist-size", "distribution has %d entries for %d sites" % (len(dist), k))
            for j, bits in enumerate(itertools.product([0, 1], repeat=k)):
                entry = dist[j]
                on = [p for p, b in zip(self.model, bits) if b]
                fresh = util.sp(self.phos_string(on))
                want = (fresh.get_kappa(), fresh.get_fraction_positive(), fresh.get_fraction_negative(), fresh.get_FCR(), fresh.get_NCPR(), fresh.get_mean_hydropathy())
                self.ctx.check(len(entry) >= 7 and [int(b) for b in entry[6]] == list(bits), "dist-order",
                               "entry %d carries status %r, binary counting order expects %r" % (j, entry[6] if len(entry) > 6 else None, bits))
                for name, g, w in zip(("kappa", "f+", "f-", "FCR", "NCPR", "hydropathy"), entry[:6], want):
                    self.ctx.check(ref.close(g, w), "dist-value:" + name, "entry %d (%r): %s=%r, fresh object on %s gives %r" % (j, bits, name, g, self.phos_string(on), w))
            self.verify("distribution read-out")
            self.flags.add("dist-readout(k=%d)" % k)

    def apply_kappa(self):
        got = self.o.get_kappa_after_phosphorylation()
        want = util.sp(self.phos_string(self.model)).get_kappa()
        self.ctx.check((got == -1) == (want == -1) and ref.close(got, want), "kappa-after-phos",
                       "get_kappa_after_phosphorylation()=%r, kappa of %s is %r" % (got, self.phos_string(self.model), want))
        self.verify("kappa read-out")
        self.flags.add("kappa-readout(k=%d)" % min(len(self.model), 6))

    def finish(self):
        nt = bool(self.flags & {"out-of-range", "non-STY", "duplicate", "set-after-clear"})
        return nt, sorted(self.flags) + ["steps:%d" % min(self.nsteps, 20)]


def positions(N):
    return st.one_of(st.integers(-N - 3, N + 3), st.integers(1, max(1, N)), st.sampled_from([0, -1, N, N + 1, 10 ** 6, -10 ** 6]))


def ops_for(N):
    return {
        "set": st.fixed_dictionaries({"kind": st.sampled_from(["int", "list", "list", "tuple", "shared-list", "shared-list"]), "vals": st.lists(positions(N), min_size=1, max_size=8),
                                      "grow": st.booleans(), "check_kappa": st.booleans()}),
        "query": st.fixed_dictionaries({"q": st.sampled_from(["get_kappa", "get_deltaMax", "get_Omega", "get_delta", "get_FCR", "get_phosphosequence"])}),
        "clear": st.just(None),
        "kappa": st.just(None),
        "dist": st.just(None),
    }


@st.composite
def inits(draw):
    cls = draw(st.sampled_from(["sty-rich", "sty-rich", "sty-free", "mixed", "long-sty", "to-maximiser"]))
    if cls == "to-maximiser":
        # a delta-maximising charge pattern in which some acidic positions are S/T/Y: phosphorylating them produces the maximiser
        from .. import patmax
        N = draw(st.sampled_from([6, 7, 8, 9]))
        tab = patmax.table(N)
        comp = draw(st.sampled_from(sorted(k for k in tab if k[0] and k[1])))
        out = []
        for ch in tab[comp]:
            if ch == "+":
                out.append(draw(st.sampled_from("KR")))
            elif ch == "-":
                out.append(draw(st.sampled_from("EDSTY" + "STY")))
            else:
                out.append(draw(st.sampled_from("GAQ")))
        seq = "".join(out)
        sites = [i + 1 for i, r in enumerate(seq) if r in ref.STY]
        lst = list(seq)
        for p in sites[4:]:
            lst[p - 1] = "E"                      # at most four phosphosites, so that the full distribution stays cheap
        seq = "".join(lst)
        return {"seq": seq, "script": draw(st.permutations([p for p in sites[:4]]))}
    if cls == "long-sty":
        return {"seq": draw(gens.exact_words("STY" * 5 + "KEG", draw(st.integers(90, 140)))), "long": True}
    n = draw(st.integers(1, 24))
    alpha = {"sty-rich": "STY" * 3 + "KEDRG", "sty-free": "ACDEFGHIKLMNPQRVW", "mixed": ref.AA}[cls]
    return {"seq": draw(gens.exact_words(alpha, n))}


def run(ctx, tier, seed, idx, nshards):
    n = {"quick": 120, "thorough": 800}[tier]
    stateful.run(ctx, Sim, ops_for(24), inits(), n_examples=n, max_steps=12 if tier == "quick" else 25, seed=seed)


replay = stateful.replay_fn(Sim)


def parts(tier):
    return [Part("stateful-phosphosites", "custom", run=run, check=replay, shards={"quick": 16, "thorough": 16})]
