"""C19 — plots place sequences at true coordinates in the regions that classify them."""
import contextlib
import logging
import os
import random
import shutil
import tempfile

import numpy as np
from hypothesis import strategies as st

from .. import gens, ref, util
from ..core import Part

PROPERTY = "C19"
RULE = ("hyp: entry point (the 4 SequenceParameters show_/save_ phase/Uversky methods, the 12 plots-module single/multiple/multiple2 show_/save_ "
        "functions) x arguments (1-5 sequences or coordinate pairs, label(s) given or omitted, title given or default, xLim/yLim in (0,1], "
        "legend on/off, font size, getFig, saveFormat in {png, pdf, svg}); linear-profile plots show_linear{NCPR,FCR,Sigma,Hydropathy}(w, "
        "getFig=True) and save_linear* for generated (sequence, w). enum: region agreement for every (n+, n-, N) with N<=60 (quick) / N<=120 "
        "(thorough) against the five polygons taken from the drawn figure, plus every composition within two residues of a threshold for N up to 400 (quick) / 1000 (thorough); linear plots also for sequences of 200-300 residues (219/220/221/260 always). A quarter of the diagram cases are made right after a library save_* call of another sequence (svg/pdf/png) with nothing closed by the caller in between; labels may be 70-130 characters long; homopolymers put markers in the corners. Oracle on the captured figure (returned object, or snapshot at "
        "savefig/show): one marker per sequence at (f+, f-) resp. (mean net charge, Uversky hydropathy) of the object's own getters; title, "
        "axis limits and label texts as requested; getFig=True returns a non-None object exposing the figure; a save writes a non-empty "
        "file; the marker lies in the closed polygon (1e-9) whose index equals get_phasePlotRegion(); linear plots have exactly N bars, bar "
        "k centred at position k+1 with the height of get_linear_*(w)[1][k]. homopolymers: every residue type as a chain of 1..45 (thorough 120) residues (extreme coordinates) through the show entry points. Non-trivial: a label, non-default limits or title, an extreme coordinate (homopolymer), or >=2 "
        "sequences (region part: every triple); distinct by the whole case. A fifth of the diagram cases draw on a figure that an earlier show_*(getFig=True) of another sequence left open (the library draws on the current pyplot figure): there the requested title (often the empty one) and limits must be in force and this call's markers and labels present among the accumulated ones.")
ASSUMPTIONS = ["figure checks inspect matplotlib artists (scatter offsets, annotation texts, polygon vertices, bar rectangles), not pixels",
               "the written file's format, legend and font size are not part of the statement and are not asserted",
               "region polygons are identified by drawing order (region 1..5), which is also the legend order"]
TECHNIQUE = "Hypothesis property testing over entry points x arguments with figure capture (matplotlib artist inspection) + exhaustive region/polygon agreement over composition space; oracle = the object's own getters and the region classifier (differential between drawing and classification)"
LEVEL_TEXT = "Exploration of all 16 diagram entry points and 8 linear-profile entry points with generated arguments; region agreement complete over compositions up to N=60/120."
LEVEL_NOTE = "Artist-level inspection under the Agg backend; pixels are not examined."

logging.getLogger("matplotlib").setLevel(logging.ERROR)
logging.getLogger("matplotlib.font_manager").setLevel(logging.ERROR)

_tmp = None


def tmpdir():
    global _tmp
    if _tmp is None or not os.path.isdir(_tmp):
        _tmp = tempfile.mkdtemp(prefix="vlc-c19-%d-" % os.getpid(), dir="/dev/shm" if os.path.isdir("/dev/shm") else None)
        import atexit
        atexit.register(shutil.rmtree, _tmp, True)
    return _tmp


def snapshot(fig):
    from matplotlib.patches import Polygon, Rectangle
    out = dict(markers=[], texts=[], polygons=[], bars=[], title=None, xlim=None, ylim=None, naxes=len(fig.axes))
    if not fig.axes:
        return out
    ax = fig.axes[0]
    for col in ax.collections:
        for xy in np.asarray(col.get_offsets()).tolist():
            out["markers"].append((float(xy[0]), float(xy[1])))
    for t in ax.texts:
        out["texts"].append(t.get_text())
    for p in ax.patches:
        if isinstance(p, Rectangle):
            out["bars"].append((float(p.get_x()), float(p.get_y()), float(p.get_width()), float(p.get_height())))
        elif isinstance(p, Polygon):
            out["polygons"].append([(float(a), float(b)) for a, b in p.get_xy().tolist()])
    out["title"] = ax.get_title()
    out["xlim"] = tuple(float(v) for v in ax.get_xlim())
    out["ylim"] = tuple(float(v) for v in ax.get_ylim())
    return out


@contextlib.contextmanager
def recording():
    import matplotlib.pyplot as plt
    plt.close("all")
    snaps = []
    osave, oshow = plt.savefig, plt.show

    def savefig(*a, **k):
        snaps.append(("savefig", snapshot(plt.gcf())))
        return osave(*a, **k)

    def show(*a, **k):
        snaps.append(("show", snapshot(plt.gcf())))
    plt.savefig, plt.show = savefig, show
    try:
        yield snaps
    finally:
        plt.savefig, plt.show = osave, oshow
        plt.close("all")


def capture_keep(fn, getfig):
    """Like capture() but WITHOUT closing open figures first (whatever an earlier library call left open stays)."""
    import matplotlib.pyplot as plt
    snaps = []
    osave, oshow = plt.savefig, plt.show
    plt.savefig = lambda *a, **k: (snaps.append(("savefig", snapshot(plt.gcf()))), osave(*a, **k))[1]
    plt.show = lambda *a, **k: snaps.append(("show", snapshot(plt.gcf())))
    try:
        res = fn()
        if getfig:
            ok = res is not None and (hasattr(res, "savefig") or hasattr(res, "gcf"))
            fig = res.gcf() if hasattr(res, "gcf") else res
            return ok, snapshot(fig) if ok else None, res
        return True, (snaps[-1][1] if snaps else None), res
    finally:
        plt.savefig, plt.show = osave, oshow
        plt.close("all")


def capture(fn, getfig):
    """Call an entry point; return (returned object is fine?, snapshot)."""
    import matplotlib.pyplot as plt
    with recording() as snaps:
        res = fn()
        if getfig:
            ok = res is not None and (hasattr(res, "savefig") or hasattr(res, "gcf"))
            fig = res.gcf() if hasattr(res, "gcf") else res
            return ok, snapshot(fig) if ok else None, res
        return True, (snaps[-1][1] if snaps else None), res


# ---------------------------------------------------------------------------------------------------------------- diagrams

def build_call(case, objs, path):
    from localcider import plots
    ep, kind, how = case["entry"], case["kind"], case["how"]     # entry in sp|single|multiple|multiple2 ; kind phase|uversky ; how show|save
    kw = {}
    for k in ("title", "legendOn", "xLim", "yLim", "fontSize"):
        if k in case:
            kw[k] = case[k]
    labels = case.get("labels")
    if how == "show":
        kw["getFig"] = case["getFig"]
    else:
        if "saveFormat" in case:
            kw["saveFormat"] = case["saveFormat"]
    if kind == "phase":
        xs = [o.get_fraction_positive() for o in objs]
        ys = [o.get_fraction_negative() for o in objs]
        a1, a2 = xs, ys           # plots module order: (fp, fn)
    else:
        xs = [o.get_mean_net_charge() for o in objs]
        ys = [o.get_uversky_hydropathy() for o in objs]
        a1, a2 = ys, xs           # plots module order: (hydropathy, mean_net_charge)
    name = {"phase": "phasePlot", "uversky": "uverskyPlot"}[kind]
    if ep == "sp":
        meth = getattr(objs[0], "%s_%s" % (how, "phaseDiagramPlot" if kind == "phase" else "uverskyPlot"))
        if labels is not None:
            kw["label"] = labels[0]
        args = [path] if how == "save" else []
    elif ep == "single":
        meth = getattr(plots, "%s_single_%s" % (how, name))
        if labels is not None:
            kw["label"] = labels[0]
        args = [a1[0], a2[0]] + ([path] if how == "save" else [])
    elif ep == "multiple":
        meth = getattr(plots, "%s_multiple_%s" % (how, name))
        args = [list(a1), list(a2)] + ([path] if how == "save" else [])
        if labels is not None:
            if how == "show" and kind == "phase":
                kw["label"] = list(labels)          # this one entry point names its keyword `label`
            else:
                kw["label_list"] = list(labels)
    else:
        meth = getattr(plots, "%s_multiple_%s2" % (how, name))
        args = [list(objs)] + ([path] if how == "save" else [])
        if labels is not None:
            kw["label_list"] = list(labels)
    return (lambda: meth(*args, **kw)), list(zip(xs, ys))


_polys = {}


def region_polygons():
    """The five polygons as drawn (once per process, from two different entry points)."""
    if "p" not in _polys:
        from localcider import plots
        o = util.sp("EKEKGGGEEKKDD")
        ok1, s1, _ = capture(lambda: o.show_phaseDiagramPlot(getFig=True), True)
        ok2, s2, _ = capture(lambda: plots.show_multiple_phasePlot([0.1, 0.2], [0.3, 0.1], getFig=True), True)
        _polys["p"] = (s1["polygons"] if ok1 else None, s2["polygons"] if ok2 else None)
    return _polys["p"]


def check_in_region(ctx, case, polys, x, y, region, what):
    ctx.check(polys is not None and len(polys) == 5, "polygons", "%s: expected five region polygons in the figure, found %r" % (what, None if polys is None else len(polys)), case)
    inside = [i + 1 for i, p in enumerate(polys) if ref.point_in_closed_polygon(x, y, p[:-1] if p[0] == p[-1] else p)]
    ctx.check(region in inside, "region-agreement", "%s: marker (%.6f, %.6f) is classified as region %d but lies in drawn region(s) %r" % (what, x, y, region, inside), case)


def check_diagram(ctx, case):
    objs = [util.sp(s) for s in case["seqs"]]
    n = len(objs)
    nt = bool(case.get("labels")) or n >= 2 or any(k in case for k in ("title", "xLim", "yLim", "extreme"))
    ctx.count(case, nontrivial=nt, classes=["entry:%s-%s-%s" % (case["how"], case["entry"], case["kind"]), "n=%d" % n] +
              (["getFig"] if case.get("getFig") else []) + (["labels"] if case.get("labels") else []) + (["on-open-figure"] if case.get("after_show") else []))
    path = os.path.join(tmpdir(), "fig.%s" % case.get("saveFormat", "png"))
    if os.path.exists(path):
        os.remove(path)
    call, points = build_call(case, objs, path)
    what = "%s_%s (%s)" % (case["how"], case["entry"], case["kind"])
    getfig = case["how"] == "show" and case.get("getFig", False)
    pre = case.get("after_save")
    if pre:
        # an earlier save of ANOTHER sequence through the library (which closes its own figure); nothing is closed by the caller in between
        other = util.sp(pre["seq"])
        p2 = os.path.join(tmpdir(), "pre.%s" % pre["fmt"])
        import matplotlib.pyplot as plt
        plt.close("all")
        try:
            if pre["which"] == "phase":
                other.save_phaseDiagramPlot(p2, saveFormat=pre["fmt"])
            elif pre["which"] == "uversky":
                other.save_uverskyPlot(p2, saveFormat=pre["fmt"])
            else:
                other.save_linearNCPR(p2, 5, pre["fmt"])
        except Exception:   # noqa
            pass
        ok, snap, res = capture_keep(call, getfig)
        what += " after save_%s(%s)" % (pre["which"], pre["fmt"])
    elif case.get("after_show"):
        # an earlier show_*(getFig=True) of ANOTHER sequence whose figure the caller left open (notebook use): the library draws on the
        # current pyplot figure, so earlier markers and annotations stay - the requested title and limits, and this call's markers, must be there
        ps = case["after_show"]
        other = util.sp(ps["seq"])
        import matplotlib.pyplot as plt
        plt.close("all")
        osh = plt.show
        plt.show = lambda *a, **k: None
        try:
            if ps["which"] == "phase":
                other.show_phaseDiagramPlot(title=ps["title"], getFig=True)
            elif ps["which"] == "uversky":
                other.show_uverskyPlot(title=ps["title"], getFig=True)
            else:
                other.show_linearNCPR(5, getFig=True)
        except Exception:   # noqa
            pass
        finally:
            plt.show = osh
        ok, snap, res = capture_keep(call, getfig)
        what += " on the figure left open by show_%s(title=%r, getFig=True)" % (ps["which"], ps["title"])
    else:
        ok, snap, res = capture(call, getfig)
    if getfig:
        ctx.check(ok, "getFig-none", "%s with getFig=True returned %r instead of the figure" % (what, res), case)
    ctx.check(snap is not None, "no-figure", "%s never reached savefig/show" % what, case)
    # markers
    got = sorted(snap["markers"])
    want = sorted((float(x), float(y)) for x, y in points)
    if case.get("after_show"):
        ctx.check(all(any(ref.close(a[0], b[0]) and ref.close(a[1], b[1]) for a in got) for b in want), "marker-position",
                  "%s: markers at %r, sequences are at %r" % (what, got, want), case)
    else:
        ctx.check(len(got) == len(want) and all(ref.close(a[0], b[0]) and ref.close(a[1], b[1]) for a, b in zip(got, want)), "marker-position",
                  "%s: markers at %r, sequences are at %r" % (what, got, want), case)
    # title, limits
    title = case.get("title", "Diagram of states" if case["kind"] == "phase" else "Uversky plot")
    ctx.check(snap["title"] == title, "title", "%s: title %r, requested %r" % (what, snap["title"], title), case)
    xl, yl = case.get("xLim", 1), case.get("yLim", 1)
    ctx.check(ref.close(snap["xlim"][0], 0) and ref.close(snap["xlim"][1], xl) and ref.close(snap["ylim"][0], 0) and ref.close(snap["ylim"][1], yl), "limits",
              "%s: axis limits %r x %r, requested [0,%g] x [0,%g]" % (what, snap["xlim"], snap["ylim"], xl, yl), case)
    # labels
    labels = [l for l in (case.get("labels") or []) if l != ""]
    texts = [t for t in snap["texts"] if t != ""]
    if case.get("after_show"):
        ctx.check(all(l in texts for l in labels), "labels", "%s: annotation texts %r, requested labels %r" % (what, texts, labels), case)
    else:
        ctx.check(texts == labels, "labels", "%s: annotation texts %r, requested labels %r" % (what, texts, labels), case)
    # file
    if case["how"] == "save":
        ctx.check(os.path.exists(path) and os.path.getsize(path) > 0, "file", "%s did not write %s" % (what, path), case)
    # region agreement for the plotted markers
    if case["kind"] == "phase":
        for o, (x, y) in zip(objs, points):
            # on a figure left open the earlier call's patches are still there: this call's five regions are the last five polygons
            check_in_region(ctx, case, snap["polygons"][-5:] if case.get("after_show") else snap["polygons"], float(x), float(y), o.get_phasePlotRegion(), what)


# ---------------------------------------------------------------------------------------------------------------- linear plots

LINEAR = {"NCPR": "get_linear_NCPR", "FCR": "get_linear_FCR", "Sigma": "get_linear_sigma", "Hydropathy": "get_linear_hydropathy"}


def check_linear(ctx, case):
    seq, w, prof, how = case["seq"], case["w"], case["profile"], case["how"]
    o = util.sp(seq)
    N = len(seq)
    ctx.count(case, nontrivial=(1 < w < N), classes=["linear:%s-%s" % (how, prof)])
    want = np.asarray(getattr(util.sp(seq), LINEAR[prof])(w), dtype=float)
    what = "%s_linear%s(w=%d)" % (how, prof, w)
    if how == "show":
        ok, snap, res = capture(lambda: getattr(o, "show_linear" + prof)(w, getFig=True), True)
        ctx.check(ok, "getFig-none", "%s with getFig=True returned %r" % (what, res), case)
    else:
        path = os.path.join(tmpdir(), "lin.%s" % case.get("saveFormat", "png"))
        if os.path.exists(path):
            os.remove(path)
        ok, snap, res = capture(lambda: getattr(o, "save_linear" + prof)(path, w, case.get("saveFormat", "png")), False)
        ctx.check(snap is not None, "no-figure", "%s never reached savefig" % what, case)
        ctx.check(os.path.exists(path) and os.path.getsize(path) > 0, "file", "%s did not write its file" % what, case)
    bars = snap["bars"]
    ctx.check(len(bars) == N, "bar-count", "%s drew %d bars for %d residues" % (what, len(bars), N), case)
    for k, (x, y, wd, h) in enumerate(bars):
        centre = x + wd / 2.0
        top = y + h if y != 0 else h
        ctx.check(ref.close(centre, k + 1), "bar-position", "%s: bar %d is centred at %r, expected %d" % (what, k, centre, k + 1), case)
        ctx.check(ref.close(top, want[1][k]), "bar-height", "%s: bar %d has height %r, profile value %r" % (what, k, top, float(want[1][k])), case)


def check(ctx, case):
    if case["what"] == "diagram":
        return check_diagram(ctx, case)
    if case["what"] == "linear":
        return check_linear(ctx, case)
    return check_region(ctx, case)


# ---------------------------------------------------------------------------------------------------------------- exhaustive region agreement

def check_region(ctx, case):
    P, M, Z = case["comp"]
    o = util.sp(case["seq"])
    ctx.count({"comp": case["comp"]}, nontrivial=True, classes=["region:%d" % ref.region(P, M, P + M + Z)] + (["boundary"] if ref.region_boundary(P, M, P + M + Z) else []))
    p1, p2 = region_polygons()
    ctx.check(p1 is not None and p2 is not None and p1 == p2, "polygons", "the object method and the plots module draw different region polygons", case)
    check_in_region(ctx, case, p1, float(o.get_fraction_positive()), float(o.get_fraction_negative()), o.get_phasePlotRegion(), "composition %r" % (case["comp"],))


def region_cases(tier, seed):
    rnd = random.Random(seed)
    hi = 60 if tier == "quick" else 120
    for P, M, Z in util.all_compositions(hi):
        yield {"what": "region", "comp": [P, M, Z], "seq": util.spell(util.arrange(P, M, Z, rnd), rnd)}
    # beyond the exhaustive bound: every composition within two residues of a threshold, for longer sequences
    from .c08 import band_cases
    for c in band_cases(tier, seed):
        if sum(c["comp"]) > hi:
            yield {"what": "region", "comp": c["comp"], "seq": c["seqs"][0]}


LABEL = st.one_of(st.text(alphabet="abcXYZ 123_-", min_size=1, max_size=8), st.text(alphabet="abcXYZ 123_-", min_size=1, max_size=8),
                  st.text(alphabet="abcdefgh|_ 0123456789", min_size=70, max_size=130))
LIM = st.one_of(st.just(1), st.just(1.0), st.floats(0.05, 1.0).map(lambda v: round(v, 3)))


@st.composite
def hyp_case(draw):
    if draw(st.integers(0, 4)) == 0:
        seq = draw(gens.sequences(max_len=40)) if draw(st.integers(0, 5)) else draw(gens.long_charged(200, 300))
        return {"what": "linear", "seq": seq, "w": draw(st.integers(1, len(seq))), "profile": draw(st.sampled_from(sorted(LINEAR))),
                "how": draw(st.sampled_from(["show", "show", "show", "save"])), "saveFormat": draw(st.sampled_from(["png", "svg", "svg"]))}
    entry = draw(st.sampled_from(["sp", "single", "multiple", "multiple2"]))
    kind = draw(st.sampled_from(["phase", "uversky"]))
    how = draw(st.sampled_from(["show", "show", "show", "save"]))
    n = 1 if entry in ("sp", "single") else draw(st.integers(1, 5))
    case = {"what": "diagram", "entry": entry, "kind": kind, "how": how, "seqs": [draw(gens.sequences(max_len=40)) for _ in range(n)]}
    if how == "show":
        case["getFig"] = draw(st.sampled_from([True, True, False]))
    else:
        if draw(st.booleans()):
            case["saveFormat"] = draw(st.sampled_from(["png", "pdf", "svg", "svg"]))
    if draw(st.booleans()):
        case["labels"] = [draw(LABEL) for _ in range(n)]
    if draw(st.booleans()):
        case["title"] = draw(st.one_of(st.text(alphabet="abcdefgh XYZ09:", min_size=1, max_size=12), st.sampled_from(["", " ", "0", "None"])))
    if draw(st.integers(0, 2)) == 0:
        case["xLim"] = draw(LIM)
    if draw(st.integers(0, 2)) == 0:
        case["yLim"] = draw(LIM)
    if draw(st.integers(0, 2)) == 0:
        case["legendOn"] = draw(st.booleans())
    if draw(st.integers(0, 3)) == 0:
        case["fontSize"] = draw(st.integers(6, 16))
    if draw(st.integers(0, 3)) == 0:
        case["after_save"] = {"seq": draw(gens.sequences(max_len=30, min_len=6)), "fmt": draw(st.sampled_from(["svg", "svg", "pdf", "png"])),
                              "which": draw(st.sampled_from(["phase", "uversky", "linear"]))}
    elif draw(st.integers(0, 3)) == 0:
        case["after_show"] = {"seq": draw(gens.sequences(max_len=30, min_len=6)), "which": draw(st.sampled_from(["phase", "uversky", "linear"])),
                              "title": draw(st.sampled_from(["Earlier", "Sequence A", "x"]))}
        if draw(st.booleans()):
            case["title"] = draw(st.sampled_from(["", "", " ", "New"]))
    if draw(st.integers(0, 7)) == 0 and n == 1:
        case["seqs"] = [draw(st.sampled_from(["K", "R", "KR", "D", "E"])) * draw(st.integers(5, 30))]     # a corner of the diagram
    return case


def enum_entry_cases(tier, seed):
    """Every entry point once with defaults and once with every argument set (so that no entry point depends on the random draw)."""
    rnd = random.Random(seed)
    seqs = ["".join(rnd.choice("KKEEDRGSAPQLW") for _ in range(rnd.randint(8, 30))) for _ in range(3)]
    for entry in ("sp", "single", "multiple", "multiple2"):
        n = 1 if entry in ("sp", "single") else 3
        for kind in ("phase", "uversky"):
            for how in ("show", "save"):
                base = {"what": "diagram", "entry": entry, "kind": kind, "how": how, "seqs": seqs[:n]}
                variants = [dict(base), dict(base, labels=["lab%d" % i for i in range(n)], title="My title", xLim=0.8, yLim=0.6, legendOn=False, fontSize=8)]
                for v in variants:
                    if how == "show":
                        for gf in (True, False):
                            yield dict(v, getFig=gf)
                    else:
                        yield dict(v, saveFormat="svg")
                        yield dict(v)
    for prof in sorted(LINEAR):
        for n in (219, 220, 221, 260):
            yield {"what": "linear", "seq": ("GSEKKGDRPSTEEKAGGSQL" * 13)[:n], "w": 5, "profile": prof, "how": "show", "saveFormat": "svg"}
    for prof in sorted(LINEAR):
        for how in ("show", "save"):
            lin = (seqs[0] * 2)[:13]
            for w in (1, 5, 6, 13):
                yield {"what": "linear", "seq": lin, "w": w, "profile": prof, "how": how, "saveFormat": "svg"}


def homopolymer_cases(tier, seed):
    """The extremes of both coordinate systems at every length: a chain of one residue type sits on an edge or corner of the
    diagram (f+ = 1, f- = 1, origin) resp. at that residue's own hydropathy / net charge (poly-I: the top of the Uversky axis)."""
    hi = 45 if tier == "quick" else 120
    for n in range(1, hi + 1):
        for a in ref.AA:
            yield {"what": "diagram", "entry": ("sp", "single", "multiple")[n % 3], "kind": "uversky", "how": "show", "getFig": True, "seqs": [a * n], "extreme": True}
            if a in "KRDEGH":
                yield {"what": "diagram", "entry": ("single", "multiple", "sp")[n % 3], "kind": "phase", "how": "show", "getFig": True, "seqs": [a * n], "extreme": True}


def parts(tier):
    return [
        Part("enum-regions", "enum", check=check, cases=region_cases, exhaustive=True, shards={"quick": 16, "thorough": 16}),
        Part("enum-entry-points", "enum", check=check, cases=enum_entry_cases, exhaustive=False, shards={"quick": 16, "thorough": 16}),
        Part("enum-homopolymers", "enum", check=check, cases=homopolymer_cases, exhaustive=False, shards={"quick": 16, "thorough": 16}),
        Part("hyp-plots", "hyp", check=check, strategy=lambda t: hyp_case(),
             examples={"quick": 1600, "thorough": 12800}, shards={"quick": 16, "thorough": 16}),
    ]
