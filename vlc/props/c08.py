"""C08 — diagram-of-states region is total and follows the FCR/NCPR thresholds."""
import random

from .. import ref, util
from ..core import Part

PROPERTY = "C08"
RULE = ("enum: every triple (n+, n-, N) with N<=80 (quick) / N<=160 (thorough), each realised as an actual sequence "
        "(seed-chosen arrangement and spelling; every 7th triple additionally through a second arrangement). Oracle: exact "
        "rational evaluation of the stated thresholds (1/4, 35/100); never raises; result in 1..5; equal for both realisations. "
        "Every third triple and every boundary triple also through a pasted spelling (lower case / whitespace the constructor strips). closest-approach-huge: 40 (thorough 120) lengths N=20j+r between 2 000 and 30 000 (40 000), r chosen so that k/N comes as close to 1/4 and 7/20 as a fraction can (1/(4N), 1/(20N)), the neighbours below/above as FCR and as |NCPR|. boundary-band: for N=81..400 step 3 (quick) / 161..1000 (thorough) every composition within two residues of a threshold; hyp: long (128-600) highly charged sequences and sequences up to 40 residues after a generated warm-up history of other API calls on the same object (pH getters at pH 0/7/14, kappa, profiles ...). Non-trivial: every triple (distinct by (n+, n-, N)); boundary triples (FCR in {1/4, 7/20} or |NCPR| = 7/20) are counted separately.")
ASSUMPTIONS = ["thresholds as exact rationals 1/4 and 35/100, exactly as the statement gives them"]
TECHNIQUE = "exhaustive enumeration of composition space (which the function factors through) against an exact-rational threshold oracle"
LEVEL_TEXT = ("Exploration, complete in composition space up to N=80 (quick) / 160 (thorough): the function depends only on (n+, n-, N), "
              "every such triple is realised and compared with exact arithmetic, boundaries included.")
LEVEL_NOTE = "Complete for the enumerated N; beyond it only the compositions nearest to a threshold are tried (band to N=400/1000, closest approaches at 2 000-40 000)."


def cases(tier, seed):
    rnd = random.Random(seed)
    hi = 80 if tier == "quick" else 160
    i = 0
    for N in range(1, hi + 1):
        for P in range(N + 1):
            for M in range(N - P + 1):
                i += 1
                c = {"comp": [P, M, N - P - M], "seqs": [util.spell(util.arrange(P, M, N - P - M, rnd), rnd)]}
                if i % 7 == 0:
                    c["seqs"].append(util.spell(util.arrange(P, M, N - P - M, rnd), rnd))
                if i % 5 == 0:
                    # a realisation whose neutral residues are all of one kind (P, G, H, C, W ... in turn)
                    one = "PGHCWYSNQTAVLIMF"[(i // 5) % 16]
                    c["seqs"].append("".join(one if ch in ref.NEUTRAL else ch for ch in util.spell(util.arrange(P, M, N - P - M, rnd), rnd)))
                if i % 3 == 0 or ref.region_boundary(P, M, N):
                    # the same residues as they arrive from a paste (lower case, whitespace the constructor strips)
                    c["seqs"].append(util.pasted(c["seqs"][0], rnd))
                yield c


def check(ctx, case):
    P, M, Z = case["comp"]
    N = P + M + Z
    want = ref.region(P, M, N)
    b = ref.region_boundary(P, M, N)
    ctx.count({"comp": case["comp"]}, nontrivial=True, classes=["region:%d" % want] + (["boundary"] if b else []))
    for s in case["seqs"]:
        got = util.sp(s).get_phasePlotRegion()
        ctx.check(got in (1, 2, 3, 4, 5), "range", "get_phasePlotRegion()=%r" % (got,), case)
        ctx.check(got == want, "threshold", "region %r for (n+,n-,N)=(%d,%d,%d), exact thresholds give %d%s" % (got, P, M, N, want, " [boundary]" if b else ""), case)


def check_warm(ctx, case):
    """The same oracle on an object that has already answered other queries (generated warm-up history)."""
    seq = case["seq"]
    pat = ref.pattern(seq)
    P, M = sum(1 for c in pat if c > 0), sum(1 for c in pat if c < 0)
    want = ref.region(P, M, len(seq))
    ctx.count(case, nontrivial=bool(case.get("warm")), classes=["region:%d" % want, "warm:%d" % len(case.get("warm") or [])])
    got = util.spw(seq, case).get_phasePlotRegion()
    ctx.check(got == want, "threshold-after-history", "region %r for %s after the warm-up history %r, exact thresholds give %d" % (got, seq, case.get("warm"), want), case)


def hyp_case():
    from hypothesis import strategies as st
    from .. import gens
    # calls that share code or state with the region classifier: pH-dependent FCR/NCPR (pH 0 and 14 are legal), profiles, phospho path
    focused = st.lists(st.one_of(
        st.tuples(st.sampled_from(["get_FCR", "get_NCPR", "get_mean_net_charge", "get_fraction_expanding"]), st.sampled_from([[0], [0.0], [14], [7], [7.0], [3]])).map(list),
        st.tuples(st.sampled_from(["get_linear_FCR", "get_linear_NCPR", "get_linear_sigma"]), st.sampled_from([[1], [5], [6]])).map(list),
        st.sampled_from([["plot:show_phaseDiagramPlot", {"xLim": 0.3, "yLim": 0.3}], ["plot:show_phaseDiagramPlot", {"xLim": 0.2}], ["plot:show_uverskyPlot", {"yLim": 0.3}],
                         ["phospho_cycle", [2, True]], ["phospho_cycle", [99, False]], ["phospho_cycle", [99, True]], ["get_kappa", None], ["get_isoelectric_point", None], ["get_FCR", None], ["get_NCPR", None]])),
        min_size=1, max_size=3)
    return st.one_of(st.builds(lambda s, w: {"seq": s, "warm": w}, gens.sequences(max_len=40), gens.warmups()),
                     st.builds(lambda s, w: {"seq": s, "warm": w}, gens.sequences(max_len=40), focused),
                     st.builds(lambda s, w: {"seq": s, "warm": w}, gens.words("DESTY" + "SSTT", 1, 14), focused),
                     st.builds(lambda s: {"seq": s, "warm": []}, gens.long_charged(128, 600)))


def band_cases(tier, seed):
    """Long sequences whose composition lies within two residues of a threshold (FCR 1/4, 7/20; |NCPR| 7/20)."""
    rnd = random.Random(seed + 11)
    lo, hi, step = (81, 400, 3) if tier == "quick" else (161, 1000, 1)
    for N in range(lo, hi + 1, step):
        seen = set()
        for thr in (0.25, 0.35):
            c0 = int(thr * N)
            for c in range(max(0, c0 - 2), min(N, c0 + 3) + 1):
                for P in sorted(set([0, c, c // 2, (c + 1) // 2, max(0, c // 2 - 1), rnd.randint(0, c)])):
                    if 0 <= P <= c:
                        seen.add((P, c - P))
        d0 = int(0.35 * N)
        for d in range(max(0, d0 - 2), d0 + 3):
            for extra in (0, 1, 2, rnd.randint(0, max(0, (N - d) // 2))):
                P, M = d + extra, extra
                if P + M <= N:
                    seen.add((P, M))
                    seen.add((M, P))
        for P, M in sorted(seen):
            s0 = util.spell(util.arrange(P, M, N - P - M, rnd), rnd)
            yield {"comp": [P, M, N - P - M], "seqs": [s0, util.pasted(s0, rnd)]}


def huge_cases(tier, seed):
    """Closest approach to each threshold at lengths of 2 000-30 000 (thorough: to 40 000) residues: for N = 20j + r the fractions
    k/N nearest to 1/4 and 7/20 from below and above (and the threshold itself when N admits it), as FCR and as |NCPR|.
    r in {3, 17} gives |k/N - 7/20| = 1/(20N), r odd gives |k/N - 1/4| = 1/(4N): the smallest non-zero distances possible."""
    rnd = random.Random(seed + 23)
    nN, jhi = (40, 1500) if tier == "quick" else (120, 2000)
    for i in range(nN):
        N = 20 * rnd.randint(100, jhi) + (3, 17, 3, 17, 0, 1, 10, 7)[i % 8]
        seen = set()
        for num, den in ((1, 4), (7, 20)):
            k0 = (num * N) // den
            for c in (k0 - 1, k0, k0 + 1, k0 + 2):
                if 0 <= c <= N:
                    seen.add((c, 0) if i % 2 else (c // 2, c - c // 2))        # as FCR
        d0 = (7 * N) // 20
        for d in (d0 - 1, d0, d0 + 1, d0 + 2):
            e = rnd.randint(0, max(0, (N - d) // 4))
            if d >= 0 and d + 2 * e <= N:
                seen.add((d + e, e) if i % 2 else (e, d + e))                     # as |NCPR|
        for P, M in sorted(seen):
            pat = ["+"] * P + ["-"] * M + ["0"] * (N - P - M)
            rnd.shuffle(pat)
            yield {"comp": [P, M, N - P - M], "seqs": ["".join("K" if c == "+" else "E" if c == "-" else "G" for c in pat)]}


def parts(tier):
    return [Part("enum-triples", "enum", check=check, cases=cases, exhaustive=True, shards={"quick": 16, "thorough": 16}),
            Part("enum-boundary-band", "enum", check=check, cases=band_cases, exhaustive=False, shards={"quick": 16, "thorough": 16}),
            Part("enum-closest-approach-huge", "enum", check=check, cases=huge_cases, exhaustive=False, shards={"quick": 16, "thorough": 16}),
            Part("hyp-after-history", "hyp", check=check_warm, strategy=lambda t: hyp_case(),
                 examples={"quick": 1600, "thorough": 16000}, shards={"quick": 16, "thorough": 16})]
