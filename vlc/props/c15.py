"""C15 — read-only queries are history-independent and never change the object."""
import numpy as np
from hypothesis import strategies as st

from .. import gens, ref, stateful, util
from ..core import Part, jsonable, case_hash

PROPERTY = "C15"
RULE = ("stateful: 1-3 live SequenceParameters objects over generated sequences (N<=30; each optionally with phosphosites set at construction) "
        "x a history of up to 25 (quick) / 50 (thorough) read-only queries with generated arguments drawn from the whole get_* API "
        "(incl. get_deltaMax(False/True), get_kappa_X(groups), get_linear_*(w), get_linear_sequence_composition with and without groups, "
        "get_linear_complexity, get_reduced_alphabet_sequence, pH getters, phospho getters, get_HTMLColorString, len, str), repetition allowed. "
        "A shuffle op turns get_shuffled_sequence() of a live object (optionally after asking it for its delta-max permutant) into a further live object that must answer like a fresh object built from its own sequence. Mutable arguments (groups, user alphabets) are caller-owned containers refilled in place from call to call, and every returned list/dict/array is overwritten by the harness after it has been recorded. Queries other than the four phospho read-outs are also compared with an object of the same sequence without phosphosites. Oracle: each result (or exception type) is compared bit-for-bit (arrays with array_equal, containers structurally) with (a) the same "
        "query on a freshly constructed object and (b) the baseline recorded the first time that (sequence, phosphosites, query, args) was seen "
        "in the process; after every step the stored sequence and phosphosite list of every live object are unchanged. Non-trivial: >=2 queries "
        "on one object of which an earlier one can write state (kappa / deltaMax / Omega / phospho-kappa / default-argument calls); distinct "
        "by (objects, history).")
ASSUMPTIONS = ["get_shuffled_sequence (random by design), the setters and the plotting methods are not read-only queries and are not part of the histories",
               "bit-for-bit comparison is sound because the same code path on the same input is deterministic (no RNG, no clock)",
               "arguments passed by the harness are fresh copies per call (mutation of a caller's argument object is not part of this property)"]
TECHNIQUE = "Hypothesis stateful testing (RuleBasedStateMachine over the read-only API, several live objects); oracle = comparison with a freshly constructed object and with first-seen baselines (history-independence), plus a state invariant"
LEVEL_TEXT = "Exploration of query histories over the whole read-only API on several live objects; every answer compared exactly with a fresh object's."
LEVEL_NOTE = "Fresh-object comparison cannot see drift shared by all objects; the per-process first-seen baseline covers that within a run."

NOARG = ["get_sequence", "get_length", "get_mean_hydropathy", "get_uversky_hydropathy", "get_WW_hydropathy", "get_fraction_disorder_promoting",
         "get_amino_acid_fractions", "get_SCD", "get_kappa", "get_Omega", "get_Omega_sequence", "get_deltaMax", "get_delta", "get_countPos",
         "get_countNeg", "get_countNeut", "get_fraction_positive", "get_fraction_negative", "get_FCR", "get_NCPR", "get_fraction_expanding",
         "get_mean_net_charge", "get_isoelectric_point", "get_molecular_weight", "get_phasePlotRegion", "get_phosphosites",
         "get_kappa_after_phosphorylation", "get_all_phosphorylatable_sites", "get_full_phosphostatus_kappa_distribution", "get_phosphosequence",
         "get_HTMLColorString", "get_PPII_propensity", "get_linear_sigma", "get_linear_NCPR", "get_linear_FCR", "get_linear_hydropathy",
         "get_linear_sequence_composition", "get_reduced_alphabet_sequence", "get_linear_complexity", "__len__", "__str__"]
WRITERS = {"get_kappa", "get_deltaMax", "get_Omega", "get_kappa_after_phosphorylation", "get_full_phosphostatus_kappa_distribution",
           "get_linear_sequence_composition", "get_reduced_alphabet_sequence", "get_linear_complexity", "get_kappa_X"}

PHOS_DEPENDENT = {"get_phosphosites", "get_kappa_after_phosphorylation", "get_full_phosphostatus_kappa_distribution", "get_phosphosequence"}

_BASELINE = {}


def freeze(x):
    """Canonical, exactly comparable form of a result."""
    if isinstance(x, np.ndarray):
        return ("ndarray", x.shape, str(x.dtype.kind), tuple(np.asarray(x, dtype=float).ravel().tolist()) if x.dtype.kind in "iuf" else tuple(x.ravel().tolist()))
    if isinstance(x, (tuple, list)):
        return (type(x).__name__,) + tuple(freeze(v) for v in x)
    if isinstance(x, dict):
        return ("dict",) + tuple(sorted((repr(k), freeze(v)) for k, v in x.items()))
    if isinstance(x, (np.floating, float)):
        return ("float", float(x).hex() if x == x else "nan")
    if isinstance(x, (np.integer, int)) and not isinstance(x, bool):
        return ("int", int(x))
    if isinstance(x, (set, frozenset)):
        return ("set",) + tuple(sorted(repr(v) for v in x))
    return (type(x).__name__, repr(x))


# caller-owned argument objects that are REUSED (refilled in place) from call to call, as a script looping over settings would do
_SHARED = {"dict": {}, "list": [], "list2": [], "groups": []}


def scribble(x):
    """The caller owns what a query returns: overwrite it after it has been recorded (a later answer must not notice)."""
    try:
        if isinstance(x, np.ndarray) and x.size:
            x[...] = -7
        elif isinstance(x, list):
            x.append("scribble")
            x.reverse()
        elif isinstance(x, dict):
            for k in list(x):
                x[k] = "scribble"
        elif isinstance(x, tuple):
            for v in x:
                scribble(v)
    except Exception:   # noqa
        pass


def do(o, q, args, shared=False):
    args = jsonable(args) if args is not None else []
    a = list(args)
    def own(kind, value):
        if not shared:
            return value
        box = _SHARED[kind]
        box.clear()
        box.update(value) if isinstance(box, dict) else box.extend(value)
        return box
    if q == "get_kappa_X":
        a = [own("list", list(a[0]))] + ([own("list2", list(a[1]))] if len(a) > 1 and a[1] is not None else [])
    elif q == "get_linear_sequence_composition" and len(a) > 1:
        a = [a[0], own("groups", [list(g) for g in a[1]])]
    elif q == "get_reduced_alphabet_sequence" and len(a) > 1:
        a = [a[0], own("dict", dict(a[1]))]
    try:
        if q == "get_linear_complexity":
            if len(a) > 2 and isinstance(a[2], dict):
                res = getattr(o, q)(a[0], a[1], own("dict", dict(a[2])), *a[3:])
            else:
                res = getattr(o, q)(*a[:2], {}, *a[2:]) if len(a) > 2 else getattr(o, q)(*a)
        else:
            res = getattr(o, q)(*a)
        out = ("ok", freeze(res))
        scribble(res)
        return out
    except Exception as e:   # noqa
        return ("exc", type(e).__name__)


class Sim:
    def __init__(self, ctx, init):
        self.ctx = ctx
        self.specs = [(o["seq"], list(o.get("phos", []))) for o in init["objs"]]
        self.objs = [self.build(i) for i in range(len(self.specs))]
        self.per_obj = [[] for _ in self.specs]
        self.nt = False
        self.nsteps = 0

    def build(self, i):
        seq, phos = self.specs[i]
        o = util.sp(seq)
        if phos:
            o.set_phosphosites(list(phos))
        return o

    def expected_sites(self, i):
        seq, phos = self.specs[i]
        out = []
        for p in phos:
            if 1 <= p <= len(seq) and seq[p - 1] in ref.STY and p not in out:
                out.append(p)
        return out

    def apply(self, op, args):
        self.nsteps += 1
        i = args["obj"] % len(self.objs)
        if op == "shuffle":
            # a shuffled copy is a new live object: from now on it must answer like an object freshly built from its own sequence
            if len(self.objs) >= 5:
                return
            parent = self.objs[i]
            if args.get("ask_permutant_first"):
                parent.get_deltaMax(True)
            if args.get("ask_kappa_first"):
                parent.get_kappa()
            from .. import tape as _tape
            with _tape.installed(_tape.Tape(int(args.get("tape", 0)))):      # the shuffle's PRNG is owned by the harness: histories replay
                child = parent.get_shuffled_sequence(set(args.get("frozen") or []) & set(range(len(self.specs[i][0]))))
            self.ctx.check(sorted(child.get_sequence()) == sorted(self.specs[i][0]), "shuffle-not-a-rearrangement", "get_shuffled_sequence returned %r" % (child.get_sequence(),))
            self.specs.append((child.get_sequence(), []))
            self.objs.append(child)
            self.per_obj.append(["<shuffled-from-%d>" % i])
            self.nt = True
            # the new object must answer like a fresh one right away (whatever its parent had cached)
            for q in ("get_deltaMax", "get_kappa", "get_delta"):
                got = do(child, q, None)
                fresh = do(util.sp(child.get_sequence()), q, None)
                self.ctx.check(got == fresh, "shuffled-child-differs-from-fresh:" + q,
                               "%s() of a shuffled copy (%s, parent %s) returned %s; a fresh object of that sequence returns %s" % (q, child.get_sequence(), self.specs[i][0], got, fresh))
            return
        q, qa = args["q"], args.get("args")
        seq, phos = self.specs[i]
        got = do(self.objs[i], q, qa, shared=True)
        fresh = do(self.build(i), q, qa, shared=True)
        what = "%s(%s) on object %d (%s, phosphosites %r) after %r" % (q, "" if qa is None else repr(qa)[1:-1], i, seq, phos, self.per_obj[i][-6:])
        self.ctx.check(got == fresh, "differs-from-fresh:" + q, "%s returned %s; a fresh object returns %s" % (what, str(got)[:300], str(fresh)[:300]))
        if phos and q not in PHOS_DEPENDENT:
            # every other analysis is an analysis of the stored sequence: marking phosphosites must not change it
            plain = do(util.sp(seq), q, qa, shared=True)
            self.ctx.check(got == plain, "depends-on-phosphosites:" + q, "%s returned %s; an object of the same sequence without phosphosites returns %s" % (what, str(got)[:300], str(plain)[:300]))
        key = case_hash([seq, phos, q, qa])
        base = _BASELINE.setdefault(key, fresh)
        self.ctx.check(got == base, "differs-from-baseline:" + q, "%s returned %s; the first answer seen in this process was %s" % (what, str(got)[:300], str(base)[:300]))
        if any(p in WRITERS for p in self.per_obj[i]):
            self.nt = True
        self.per_obj[i].append(q)
        for k, o in enumerate(self.objs):
            s, ph = self.specs[k]
            self.ctx.check(o.get_sequence() == s, "sequence-changed", "after %s the stored sequence of object %d is %r (was %r)" % (what, k, o.get_sequence(), s))
            self.ctx.check(list(o.get_phosphosites()) == self.expected_sites(k), "phosphosites-changed",
                           "after %s the phosphosite list of object %d is %r (was %r)" % (what, k, o.get_phosphosites(), self.expected_sites(k)))

    def finish(self):
        used = set(q for l in self.per_obj for q in l)
        return self.nt, ["objects:%d" % len(self.objs), "steps:%s" % ("<5" if self.nsteps < 5 else "5-14" if self.nsteps < 15 else ">=15")] + ["q:" + q for q in sorted(used)]


USER = st.sampled_from([
    {a: ("L" if a in "LVIMCAGSTPFYW" else "E") for a in ref.AA},
    {a: ("K" if a in "KRH" else "D" if a in "DE" else "G") for a in ref.AA},
    {a: ("S" if a in "STNQ" else "A") for a in ref.AA},
    {a: a for a in ref.AA},
    {a: ref.AA[(i + 1) % 20] for i, a in enumerate(ref.AA)},
])
GROUP = st.lists(st.sampled_from(list(ref.AA)), min_size=1, max_size=5, unique=True)
PH = st.one_of(st.sampled_from([0, 7, 14, 7.4, 3.9]), st.floats(0, 14), st.sampled_from([-1, 15]))
W = st.one_of(st.integers(1, 34), st.sampled_from([1, 1, 2, 5, 6]))


@st.composite
def queries(draw):
    kind = draw(st.integers(0, 9))
    obj = draw(st.integers(0, 4))
    if kind <= 3:
        q = draw(st.sampled_from(NOARG))
        if draw(st.integers(0, 3)) == 0:
            q = draw(st.sampled_from(["get_kappa", "get_deltaMax", "get_Omega", "get_linear_sequence_composition", "get_kappa_after_phosphorylation",
                                      "get_phosphosequence", "get_phosphosites", "get_full_phosphostatus_kappa_distribution"]))
        return {"obj": obj, "q": q, "args": None}
    if kind == 4:
        return {"obj": obj, "q": "get_deltaMax", "args": [draw(st.sampled_from([True, True, False]))]}
    if kind == 5:
        g1 = draw(GROUP)
        g2 = draw(st.one_of(st.none(), GROUP))
        if g2:
            g2 = [x for x in g2 if x not in g1] or None
        return {"obj": obj, "q": "get_kappa_X", "args": [g1, g2] if g2 else [g1]}
    if kind == 6:
        return {"obj": obj, "q": draw(st.sampled_from(["get_FCR", "get_NCPR", "get_mean_net_charge", "get_fraction_expanding"])), "args": [draw(PH)]}
    if kind == 7:
        q = draw(st.sampled_from(["get_linear_sigma", "get_linear_NCPR", "get_linear_FCR", "get_linear_hydropathy", "get_linear_sequence_composition"]))
        a = [draw(W)]
        if q == "get_linear_sequence_composition" and draw(st.booleans()):
            a.append(draw(st.lists(GROUP.map("".join), min_size=1, max_size=3)))
        return {"obj": obj, "q": q, "args": a}
    if kind == 8:
        if draw(st.integers(0, 2)) == 0:
            a = [draw(st.sampled_from(sorted(ref.PARTITIONS) + [7, 0]))]
            if draw(st.booleans()):
                a = [20, draw(USER)]
            return {"obj": obj, "q": "get_reduced_alphabet_sequence", "args": a}
        if draw(st.integers(0, 2)) == 0:
            # few distinct settings, so that the same setting recurs with ANOTHER alphabet in the same caller-owned dict
            return {"obj": obj, "q": "get_linear_complexity", "args": [draw(st.sampled_from(["WF", "WF", "LC", "LZW"])), 20, draw(USER), draw(st.sampled_from([3, 5])), 1, 3]}
        return {"obj": obj, "q": "get_linear_complexity", "args": [draw(st.sampled_from(["WF", "LC", "LZW", "lc", "XX"])), draw(st.sampled_from(sorted(ref.PARTITIONS))),
                                                                      draw(st.integers(1, 32)), draw(st.integers(1, 5)), draw(st.integers(1, 4))]}
    return {"obj": obj, "q": "get_PPII_propensity", "args": [draw(st.sampled_from(["hilser", "creamer", "kallenbach", "HILSER", "nope"]))]}


_BEATING = []


def beating_patterns():
    """Arrangements (N = 6..10) whose own delta exceeds the documented delta-max of their composition (ratio in the clamp band or beyond)."""
    if not _BEATING:
        from .. import patmax
        for N in (6, 7, 8, 9, 10):
            for comp, best in sorted(patmax.table(N).items()):
                if comp[0] + comp[1] and ref.delta(ref.pat_from_str(best)) > max(ref.dmax_refs(*comp)):
                    _BEATING.append(best)
        # segregated arrangements just outside the documented >=18-neutral family (few neutrals between the blocks, the rest at one end)
        for Z in (18, 19, 21):
            for k in (4, 7, 10):
                for m in (2, 3, 4):
                    for pat in ("0" * (Z - m) + "+" * k + "0" * m + "-", "-" + "0" * m + "+" * k + "0" * (Z - m),
                                "0" * (Z - m) + "-" * k + "0" * m + "+", "+" + "0" * m + "-" * k + "0" * (Z - m)):
                        P_, M_ = pat.count("+"), pat.count("-")
                        if ref.delta(ref.pat_from_str(pat)) > max(ref.dmax_refs(P_, M_, Z)):
                            _BEATING.append(pat)
    return _BEATING


@st.composite
def inits(draw):
    n = draw(st.integers(1, 3))
    objs = []
    for _ in range(n):
        if draw(st.booleans()):
            s = draw(gens.exact_words("STY" * 4 + "KEDRG" + ref.AA, draw(st.integers(1, 30))))
            sty = [i + 1 for i, r in enumerate(s) if r in ref.STY]
            phos = draw(st.lists(st.sampled_from(sty + [1, len(s)]), max_size=4, unique=True))
        elif draw(st.integers(0, 5)) == 0:
            # the delta-maximising arrangement of a small composition (its own delta may exceed the documented delta-max)
            s = draw(gens.spelled(draw(st.sampled_from(beating_patterns()))))
            phos = []
        elif draw(st.integers(0, 4)) == 0:
            # a designed, segregated ordering (charge blocks, neutrals split between start, middle and end), up to 36 residues
            n_ = draw(st.one_of(st.integers(6, 36), st.integers(24, 36)))
            P_ = draw(st.integers(1, max(1, n_ // 3))); M_ = draw(st.integers(1, max(1, n_ // 3)))
            if draw(st.booleans()) and n_ >= 24:
                P_, M_ = draw(st.integers(1, 4)), draw(st.integers(1, max(1, n_ - 18 - 4)))
            Z_ = max(0, n_ - P_ - M_)
            s1 = draw(st.integers(0, Z_)); m1 = draw(st.integers(0, Z_ - s1))
            if Z_ >= 18 and draw(st.booleans()):
                # just outside the documented >=18-neutral family: few neutrals between the blocks, most of them at one terminus
                m1 = draw(st.integers(0, min(5, Z_)))
                s1 = draw(st.sampled_from([0, 1, 2, Z_ - m1, Z_ - m1 - 1, max(0, Z_ - m1 - 2)]))
                if draw(st.booleans()):
                    P_, M_ = (1, M_ + P_ - 1) if draw(st.booleans()) else (P_ + M_ - 1, 1)
            pat = "0" * s1 + (("+" * P_ + "0" * m1 + "-" * M_) if draw(st.booleans()) else ("-" * M_ + "0" * m1 + "+" * P_)) + "0" * (Z_ - s1 - m1)
            s = draw(gens.spelled(pat))
            phos = []
        else:
            s = draw(gens.sequences(max_len=30))
            phos = []
        objs.append({"seq": s, "phos": phos})
    if n >= 2 and draw(st.integers(0, 2)) == 0:
        objs[1] = dict(objs[0])          # two live objects over the same sequence
    return {"objs": objs}


OPS = {"query": queries(),
       "shuffle": st.fixed_dictionaries({"obj": st.integers(0, 4), "ask_permutant_first": st.booleans(), "ask_kappa_first": st.booleans(), "frozen": st.lists(st.integers(0, 29), max_size=3), "tape": st.integers(0, 10 ** 6)})}


def run(ctx, tier, seed, idx, nshards):
    stateful.run(ctx, Sim, OPS, inits(), n_examples={"quick": 120, "thorough": 800}[tier], max_steps=25 if tier == "quick" else 50, seed=seed)
    ctx.extra["baselines"] = len(_BASELINE)


replay = stateful.replay_fn(Sim)


def parts(tier):
    return [Part("stateful-queries", "custom", run=run, check=replay, shards={"quick": 16, "thorough": 16})]
