"""C09 — pH-dependent charge follows Henderson-Hasselbalch; pI neutralises the chain."""
import signal

from hypothesis import strategies as st

from .. import gens, ref, util
from ..core import Part, Inconclusive

PROPERTY = "C09"
RULE = ("enum: each of the 20 single residues and 60 two/three-residue titratable words x pH in {0,1,...,14} and edge values; hyp: sequences "
        "from classes {only basic, only acidic, only R, only H, only C/Y, no titratable, single residue, mixed (all composition classes), "
        "homopolymer +/- one opposite residue up to 1000} x two pH values in [0,14] (floats, integers, edges) and rejected pH values in "
        "[-10,0) U (14,30] and +/-inf. Oracle: own Henderson-Hasselbalch sums at the EMBOSS pKa values / N for NCPR(pH), FCR(pH), "
        "|NCPR(pH)| for mean net charge, FCR(pH)+f_P for the expanding fraction; NCPR non-increasing in pH; |NCPR|<=FCR<=titratable/N; "
        "out-of-range pH raises; get_isoelectric_point() returns (10 s watchdog = inconclusive) a pH where the harness's own charge per "
        "titratable residue is within 0.02 of zero, 7.0 when nothing titrates. sequences <=60 residues optionally after a generated warm-up history; the object that has just computed its pI is re-titrated at the pH values the bisection visits. Non-trivial: >=1 titratable residue; distinct by (sequence, pH pair). A quarter of the random cases use a pasted spelling. In the generated parts one clean word in eight is handed to the constructor as SeqObj=Sequence(lower/mixed-case text) instead of as a string (same object expected).")
ASSUMPTIONS = ["pKa table in vlc/ref.py transcribes the documented EMBOSS values (C 8.5, Y 10.1, H 6.5, E 4.1, D 3.9, K 10.0, R 12.5)",
               "NaN is not a pH and is not generated", "tolerance 1e-9 on charges; 0.02 + 1e-9 on the pI condition; 1e-12 slack on monotonicity (float summation)"]
TECHNIQUE = "Hypothesis property testing + small exhaustive grid; differential oracle = independent Henderson-Hasselbalch evaluation, monotonicity and bound invariants, validity predicate for the isoelectric point"
LEVEL_TEXT = "Exploration: extreme-composition classes (which reach the bracket-widening path of the pI search) and random sequences x pH values across and around [0,14]."
LEVEL_NOTE = "Trusts the transcribed pKa table; pI is checked by a validity predicate (many pH values are acceptable), not against one expected value."


class _Timeout(Exception):
    pass


def _alarm(signum, frame):
    raise _Timeout()


def pI_with_watchdog(o, secs=10):
    old = signal.signal(signal.SIGALRM, _alarm)
    signal.alarm(secs)
    try:
        return o.get_isoelectric_point()
    except _Timeout:
        raise Inconclusive()
    finally:
        signal.alarm(0)
        signal.signal(signal.SIGALRM, old)


def check_ph(ctx, seq, pH, case, obj=None):
    N = len(seq)
    o = obj if obj is not None else util.spw(seq, case)
    net = ref.hh_net(seq, pH) / N
    tot = ref.hh_total(seq, pH) / N
    got_n = o.get_NCPR(pH)
    got_f = o.get_FCR(pH)
    ctx.check(ref.close(got_n, net), "ncpr", "get_NCPR(%r)=%r, HH reference %r" % (pH, got_n, net), case)
    ctx.check(ref.close(got_f, tot), "fcr", "get_FCR(%r)=%r, HH reference %r" % (pH, got_f, tot), case)
    got_m = o.get_mean_net_charge(pH)
    ctx.check(ref.close(got_m, abs(net)), "mnc", "get_mean_net_charge(%r)=%r, reference %r" % (pH, got_m, abs(net)), case)
    got_e = o.get_fraction_expanding(pH)
    ctx.check(ref.close(got_e, tot + seq.count("P") / N), "expanding", "get_fraction_expanding(%r)=%r, reference %r" % (pH, got_e, tot + seq.count("P") / N), case)
    ctx.check(abs(got_n) <= got_f + 1e-12, "bound-ncpr", "|NCPR(pH)|=%r > FCR(pH)=%r" % (abs(got_n), got_f), case)
    ctx.check(got_f <= ref.n_titratable(seq) / N + 1e-12, "bound-fcr", "FCR(pH)=%r exceeds titratable fraction %r" % (got_f, ref.n_titratable(seq) / N), case)
    return got_n


def check(ctx, case):
    seq = case["seq"]
    nt = ref.n_titratable(seq)
    cl = ["class:" + case.get("cls", "?")] + gens.classify(seq)[:1]
    ctx.count(case, nontrivial=nt >= 1, classes=cl)
    phs = sorted(case.get("pH", []))
    vals = [check_ph(ctx, seq, p, case) for p in phs]
    for i in range(1, len(vals)):
        ctx.check(vals[i] <= vals[i - 1] + 1e-12, "monotone", "NCPR rose with pH: NCPR(%r)=%r < NCPR(%r)=%r" % (phs[i - 1], vals[i - 1], phs[i], vals[i]), case)
    for bad in case.get("bad_pH", []):
        bad = float(bad) if isinstance(bad, str) else bad
        for meth in ("get_NCPR", "get_FCR", "get_mean_net_charge", "get_fraction_expanding"):
            ok, res = util.exc_name(getattr(util.sp(seq), meth), bad)
            ctx.check(not ok, "ph-range", "%s(%r) answered %r instead of rejecting a pH outside [0,14]" % (meth, bad, res if ok else None), case)
    if case.get("pI", True):
        shared = util.spw(seq, case)
        pI = pI_with_watchdog(shared)
        ctx.check(isinstance(pI, float) or isinstance(pI, int), "pI-type", "get_isoelectric_point() returned %r" % (pI,), case)
        if nt == 0:
            ctx.check(pI == 7.0, "pI-nothing-titrates", "pI=%r for a sequence without titratable residues (expected 7.0)" % (pI,), case)
        else:
            resid = ref.hh_net(seq, pI) / nt
            ctx.check(abs(resid) <= 0.02 + 1e-9, "pI-neutral", "at the reported pI=%r the mean charge per titratable residue is %r (|.|>0.02)" % (pI, resid), case)
            if pI < 0 or pI > 14:
                ctx.cls("pI-outside-0-14")
        # the object that has just searched its pI must still titrate correctly (pH values the bisection visits included)
        for p in [7.0, 3.5, 10.5, 5.25, 8.75] + [x for x in phs[:2]] + ([pI] if 0 <= pI <= 14 else []):
            check_ph(ctx, seq, p, case, obj=shared)


def enum_cases(tier, seed):
    import itertools
    words = list(ref.AA) + ["".join(w) for w in itertools.product("KRHDECY", repeat=2)] + ["KDE", "RRD", "HHC", "CYK", "RDY", "HEC", "KKKY", "DDDR", "GHG", "YYY", "CCC"]
    grid = [0, 1, 2, 3, 4, 5, 6, 7, 8, 9, 10, 11, 12, 13, 14, 0.0, 14.0, 6.5, 3.9, 12.5, 7.4]
    for w in words:
        yield {"seq": w, "pH": grid, "bad_pH": [-0.001, 14.001, -1, 15], "cls": "grid"}


@st.composite
def ph_seq(draw, max_len):
    cls = draw(st.sampled_from(["basic", "acidic", "onlyR", "onlyH", "CY", "none", "single", "mixed", "mixed", "mixed", "homopolymer", "diluted"]))
    if cls == "diluted":
        # one or two titratable residues in a long chain of residues that do not titrate
        n = draw(st.integers(20, max_len))
        lst = list(draw(gens.exact_words(draw(st.sampled_from(["G", "GS", "Q", "GSAPNQT"])), n)))
        for _ in range(draw(st.integers(1, 2))):
            lst[draw(st.integers(0, n - 1))] = draw(st.sampled_from("CHYKRDE"))
        return cls, "".join(lst)
    if cls == "basic":
        s = draw(gens.words("KRH", 1, 40))
    elif cls == "acidic":
        s = draw(gens.words("DECY", 1, 40))
    elif cls == "onlyR":
        s = "R" * draw(st.integers(1, 60))
    elif cls == "onlyH":
        s = "H" * draw(st.integers(1, 60))
    elif cls == "CY":
        s = draw(gens.words("CY", 1, 40))
    elif cls == "none":
        s = draw(gens.words("AFGILMNPQSTVW", 1, 40))
    elif cls == "single":
        s = draw(st.sampled_from(list(ref.AA)))
    elif cls == "homopolymer":
        n = draw(st.integers(2, max_len))
        maj = draw(st.sampled_from("KRHDECY"))
        lst = [maj] * n
        if draw(st.booleans()):
            lst[draw(st.integers(0, n - 1))] = draw(st.sampled_from("KRHDECYG"))
        s = "".join(lst)
    else:
        s = draw(gens.sequences(max_len=min(max_len, 150)))
    return cls, s


PH_OK = st.one_of(st.floats(0, 14, allow_nan=False), st.integers(0, 14), st.sampled_from([0.0, 14.0, 0, 14, 1e-12, 14 - 1e-12, 7.0]))
PH_BAD = st.one_of(st.floats(-10, 0, exclude_max=True, allow_nan=False), st.floats(14, 30, exclude_min=True, allow_nan=False),
                   st.sampled_from([-1, 15, -1e-9, 14.000001, "inf", "-inf"]))


@st.composite
def hyp_case(draw, max_len):
    cls, s = draw(ph_seq(max_len))
    return {"seq": s, "cls": cls, "pH": draw(st.lists(PH_OK, min_size=1, max_size=3)), "bad_pH": draw(st.lists(PH_BAD, max_size=1)),
            "warm": draw(gens.warmups()) if len(s) <= 60 else [], "paste": draw(gens.paste_opt())}


def _parts(tier):
    return [
        Part("enum-grid", "enum", check=check, cases=enum_cases, exhaustive=False, shards={"quick": 8, "thorough": 16}),
        Part("hyp-titration", "hyp", check=check, strategy=lambda t: hyp_case(300 if t == "quick" else 1000),
             examples={"quick": 6400, "thorough": 48000}, shards={"quick": 16, "thorough": 16}),
    ]


def parts(tier):
    ps = _parts(tier)
    from .. import fuzz
    if tier == "thorough" and fuzz.available():
        # the same structured cases, generated coverage-guided: libFuzzer bytes drive the Hypothesis strategy (fuzz_one_input)
        ps.append(Part("atheris-guided", "custom", check=[p for p in ps if p.name == "hyp-titration"][0].check, shards={"quick": 1, "thorough": 8},
                       run=lambda ctx, t, seed, idx, n: fuzz.hyp_campaign(ctx, "c09", "hyp-titration", seed, idx, runs=30000)))
    return ps
