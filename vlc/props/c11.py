"""C11 — complexity profiles: window count, positions, range, locality, WF = entropy."""
import numpy as np
from hypothesis import strategies as st

from .. import gens, ref, util
from ..core import Part

PROPERTY = "C11"
SIZES = sorted(ref.PARTITIONS)
RULE = ("hyp: sequence (N<=60 quick / 120 thorough, all composition classes) x type in {WF, LC, LZW} (random letter case) x alphabet in "
        "{12 predefined sizes} U {random total user alphabets with >=2 image letters} x window 1..N x step 1..N x word size 1..6, plus rejected "
        "cases (unknown type strings / non-strings, window N+1..N+3); enum: every window/step pair on seed-chosen sequences of length 1..14 "
        "for each type. Oracle: shape (2, floor((N-w)/s)+1); positions strictly increasing in 1..N; values in [0,1]; locality - value k equals "
        "the single value of the isolated window seq[ks:ks+w] with blobLen=w and is unchanged by mutating residues outside that window; WF = "
        "Shannon entropy (base = alphabet size) of the window after the harness's own alphabet reduction, 0 for homopolymeric windows, "
        "invariant under permuting the window. The profile under test is computed after a generated warm-up history (other API calls incl. complexity / reduction calls with other user alphabets on the same object) in half of the cases. 5% of the cases are 140-320 residue sequences with small windows and steps 1..13 (more than 128 windows); user alphabets may carry extra non-amino-acid keys (which can never apply to a valid sequence and must not change the alphabet size). Non-trivial: K>=2 and some window with >=2 distinct reduced letters; distinct by the whole case.")
ASSUMPTIONS = ["when a user alphabet is given the alphabetSize argument is ignored (documented), so the harness may pass any predefined size with it",
               "user alphabets have at least two image letters (base-1 entropy is undefined; stated in the property's quantifier)",
               "window, step and word sizes are positive integers", "entropy tolerance 1e-9"]
TECHNIQUE = "Hypothesis property testing + small exhaustive grid; oracle = shape/range invariants, locality metamorphic relations (isolated window, outside mutation, window permutation), independent Shannon entropy with independently transcribed alphabet partitions"
LEVEL_TEXT = "Exploration over (sequence, type, alphabet, window, step, word) tuples with all windows/steps enumerated for short sequences."
LEVEL_NOTE = "LC and LZW values are checked for range and locality only (no closed form is promised by the property); WF is checked against the entropy definition."


def my_reduce(seq, size, user):
    if user:
        # keys other than the 20 amino acids can never apply to a valid sequence: the alphabet is the set of images of the 20
        return "".join(user[r] for r in seq), len(set(user[a] for a in ref.AA))
    # representative letters are irrelevant for entropy: use the group itself as the symbol
    return [ref.group_of(size, r) for r in seq], size


def call(seq, case, blob=None, step=None, warm=False):
    o = util.spw(seq, case) if warm else util.sp(seq)
    kw = dict(complexityType=case["type"], alphabetSize=case.get("size_with_user", case.get("size", 20)), blobLen=blob if blob is not None else case["w"],
              stepSize=step if step is not None else case["s"], wordSize=case.get("word", 3))
    if case.get("user"):
        kw["userAlphabet"] = dict(case["user"])
    elif (len(seq) + kw["blobLen"]) % 3 == 0:
        kw["userAlphabet"] = {}      # the signature's own default, spelled out by the caller: still "no user alphabet"
    return o.get_linear_complexity(**kw)


def check(ctx, case):
    seq, w, s = case["seq"], case["w"], case["s"]
    N = len(seq)
    typ = str(case["type"]).upper() if isinstance(case["type"], str) else case["type"]
    if case.get("reject"):
        ctx.count(case, nontrivial=True, classes=["reject:" + case["reject"]])
        ok, res = util.exc_name(call, seq, case)
        ctx.check(not ok, "accepted:" + case["reject"], "get_linear_complexity accepted %s: type=%r w=%r N=%d" % (case["reject"], case["type"], w, N), case)
        return
    K = (N - w) // s + 1
    red, base = my_reduce(seq, case.get("size", 20), case.get("user"))
    varied = any(len(set(red[k * s:k * s + w])) >= 2 for k in range(K))
    ctx.count(case, nontrivial=(K >= 2 and varied), classes=["type:" + typ, "alphabet:user" if case.get("user") else "alphabet:%d" % case.get("size", 20),
                                                                "K=1" if K == 1 else "K>=2"])
    arr = np.asarray(call(seq, case, warm=True), dtype=float)
    ctx.check(arr.shape == (2, K), "shape", "shape %r, expected (2, %d) for N=%d w=%d s=%d" % (arr.shape, K, N, w, s), case)
    pos, val = arr[0], arr[1]
    ctx.check(all(1 <= p <= N and p == int(p) for p in pos) and all(pos[i] < pos[i + 1] for i in range(K - 1)), "positions",
              "positions %r not strictly increasing integers within 1..%d" % (pos.tolist(), N), case)
    ctx.check(all(-1e-12 <= v <= 1 + 1e-12 for v in val), "range", "values outside [0,1]: %r" % ([v for v in val if not (0 <= v <= 1)],), case)
    for k in range(K):
        lo = k * s
        sub = seq[lo:lo + w]
        if case.get("locality", True) and (k < 3 or k == K - 1):
            iso = np.asarray(call(sub, case, blob=w, step=1), dtype=float)
            ctx.check(iso.shape == (2, 1) and ref.close(iso[1][0], val[k]), "locality-isolated",
                      "window %d (%s): value %r in the profile but %r for the isolated window" % (k, sub, float(val[k]), iso[1].tolist()), case)
        if typ == "WF":
            want = ref.shannon(list(red[lo:lo + w]), base)
            ctx.check(ref.close(val[k], want), "wf-entropy", "WF window %d (%s): %r, Shannon entropy base %d = %r" % (k, sub, float(val[k]), base, want), case)
            if len(set(red[lo:lo + w])) == 1:
                ctx.check(abs(val[k]) <= 1e-12, "wf-homopolymer", "WF of a homopolymeric window is %r" % (float(val[k]),), case)
    mut = case.get("mutate")
    if mut:
        # mutate residues outside window k0 and require value k0 unchanged
        k0 = mut["k"] % K
        lo = k0 * s
        lst = list(seq)
        changed = False
        for p, r in mut["subs"]:
            p = p % N
            if not (lo <= p < lo + w):
                lst[p] = r
                changed = True
        if changed:
            arr2 = np.asarray(call("".join(lst), case), dtype=float)
            ctx.check(arr2.shape == arr.shape and ref.close(arr2[1][k0], val[k0]), "locality-outside",
                      "value of window %d changed from %r to %r after mutating residues outside it (%s -> %s)" % (k0, float(val[k0]), arr2[1].tolist(), seq, "".join(lst)), case)
            ctx.cls("outside-mutation")
    perm = case.get("perm_seed")
    if perm is not None and typ == "WF":
        import random
        k0 = perm % K
        lo = k0 * s
        lst = list(seq)
        win = lst[lo:lo + w]
        random.Random(perm).shuffle(win)
        lst[lo:lo + w] = win
        arr3 = np.asarray(call("".join(lst), case), dtype=float)
        ctx.check(ref.close(arr3[1][k0], val[k0]), "wf-permutation", "WF of window %d changed under permutation of the window: %r vs %r" % (k0, float(val[k0]), float(arr3[1][k0])), case)


def enum_cases(tier, seed):
    import random
    rnd = random.Random(seed)
    hi = 10 if tier == "quick" else 14
    for N in range(1, hi + 1):
        for rep in range(2):
            seq = "".join(rnd.choice("KEGSLLAV" + ref.AA) for _ in range(N))
            for typ in ("WF", "LC", "LZW"):
                size = rnd.choice(SIZES)
                for w in range(1, N + 1):
                    for s in range(1, N + 1):
                        yield {"seq": seq, "type": typ, "size": size, "w": w, "s": s, "word": rnd.randint(1, 6)}
                for w in (N + 1, N + 2, N + 3):
                    for s in (1, 2, 3, 5):
                        yield {"seq": seq, "type": typ, "size": size, "w": w, "s": s, "reject": "window-too-long"}


@st.composite
def hyp_case(draw, max_len):
    long_case = draw(st.integers(0, 19)) == 0
    seq = draw(gens.sequences(max_len=max_len)) if not long_case else "".join(draw(st.lists(st.sampled_from(list("KEGSLAVPQD")), min_size=140, max_size=320)))
    N = len(seq)
    typ = draw(st.sampled_from(["WF", "LC", "LZW", "wf", "lc", "lzw", "Wf", "Lzw"]))
    case = {"seq": seq, "type": typ, "word": draw(st.integers(1, 6))}
    if draw(st.integers(0, 3)) == 0:
        nimg = draw(st.integers(2, 20))
        images = draw(st.lists(st.sampled_from(list(ref.AA)), min_size=nimg, max_size=nimg, unique=True))
        perm = draw(st.permutations(list(ref.AA)))
        user = {}
        for i, a in enumerate(perm):
            user[a] = images[i] if i < nimg else draw(st.sampled_from(images))   # every image letter is used: exactly nimg letters
        if draw(st.integers(0, 3)) == 0:
            # extra keys (ambiguity codes, lower case) mapping to letters no standard residue maps to
            for k in draw(st.lists(st.sampled_from(["B", "Z", "X", "U", "O", "J", "a", "k"]), min_size=1, max_size=3, unique=True)):
                user[k] = draw(st.sampled_from(list(ref.AA)))
        if draw(st.integers(0, 5)) == 0:
            perm2 = draw(st.permutations(list(ref.AA)))
            user = {a: perm2[i] for i, a in enumerate(ref.AA)}        # a bijection: nothing is merged
        case["user"] = user
        if draw(st.booleans()):
            case["size_with_user"] = draw(st.sampled_from(SIZES))     # must be ignored when a user alphabet is given
    else:
        case["size"] = draw(st.sampled_from(SIZES))
    r = draw(st.integers(0, 11))
    if r == 0:
        case.update(type=draw(st.sampled_from(["RHP", "", "WFX", "W F", "LZ", "entropy", None, 3])), w=min(N, 5), s=1, reject="unknown-type")
        return case
    if r == 1:
        case.update(w=N + draw(st.integers(1, 3)), s=draw(st.one_of(st.just(1), st.integers(1, 8))), reject="window-too-long")
        return case
    case["w"] = draw(st.one_of(st.integers(1, N), st.sampled_from([1, N, min(N, 10), min(N, 5)])))
    case["s"] = draw(st.one_of(st.integers(1, N), st.sampled_from([1, 1, 2, 3])))
    if long_case:
        case["w"] = draw(st.integers(1, 12))
        case["s"] = draw(st.sampled_from([1, 2, 3, 5, 6, 7, 9, 10, 11, 13]))
        case["locality"] = False
    case["mutate"] = {"k": draw(st.integers(0, 50)), "subs": draw(st.lists(st.tuples(st.integers(0, 500), st.sampled_from(list(ref.AA))).map(list), min_size=1, max_size=4))}
    case["perm_seed"] = draw(st.integers(0, 10 ** 6))
    case["warm"] = draw(gens.warmups())
    return case


def _parts(tier):
    return [
        Part("enum-windows-steps", "enum", check=check, cases=enum_cases, exhaustive=False, shards={"quick": 16, "thorough": 16}),
        Part("hyp-complexity", "hyp", check=check, strategy=lambda t: hyp_case(60 if t == "quick" else 120),
             examples={"quick": 9600, "thorough": 64000}, shards={"quick": 16, "thorough": 16}),
    ]


def parts(tier):
    ps = _parts(tier)
    from .. import fuzz
    if tier == "thorough" and fuzz.available():
        # the same structured cases, generated coverage-guided: libFuzzer bytes drive the Hypothesis strategy (fuzz_one_input)
        ps.append(Part("atheris-guided", "custom", check=[p for p in ps if p.name == "hyp-complexity"][0].check, shards={"quick": 1, "thorough": 8},
                       run=lambda ctx, t, seed, idx, n: fuzz.hyp_campaign(ctx, "c11", "hyp-complexity", seed, idx, runs=30000)))
    return ps
