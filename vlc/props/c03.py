"""C03 — delta-max is attained, composition-only, and equals the documented search."""
import random

from hypothesis import strategies as st

from .. import gens, ref, util
from ..core import Part

PROPERTY = "C03"
RULE = ("enum: every composition (n+, n-, n0) with N<=25 (quick) / N<=44 (thorough), each presented through 2 random arrangements and one segregated (block) arrangement, "
        "seed-chosen arrangements and spellings; hyp: random compositions to 120 (quick) / 300 (thorough) residues with "
        "boosted regime boundaries (n0 in 16..20, n+ = n-, equal blocks, single minority charge), 2 presentations each. "
        "long-no-neutrals: majority block 128..160/170 with every minority count (quick: one in sixteen); every case has one segregated (block) presentation; maximisers-after-kappa: every composition with 5<=N<=10/13 at its brute-forced delta-maximiser, queried after get_kappa() on the same object; near-ties: compositions with 20<=N<=160 (quick: all with N<=60, a sixth of the longer ones) whose documented candidate family has a runner-up within 1e-5 relative of its maximum (table derived from vlc/ref.py); long-neighbours: 2-4 compositions of one length 101..160 differing by one residue, analysed one after another in the same process; random cases <=40 residues may follow a warm-up history. Oracle: (i) all presentations return the same value; (ii) get_deltaMax(True) returns (v, s) with v equal to the plain "
        "call, s a rearrangement of the input whose exact reference delta equals v; (iii) v equals the maximum of exact "
        "rational delta over the documented candidate family (either reading where the prose is ambiguous). Non-trivial: "
        "a charged residue present and reference delta-max > 0; distinct by composition+presentation. Every object that has reported get_deltaMax() is then asked for get_deltaMax(True) and for the value again (same value to 1e-9, permutant attains it). In the generated parts one clean word in eight is handed to the constructor as SeqObj=Sequence(lower/mixed-case text) instead of as a string (same object expected).")
ASSUMPTIONS = ["vlc/ref.py:family transcribes the documented four-regime search from the property statement",
               "when the prose 'minority slid through majority' is ambiguous (equal block lengths) either reading is accepted",
               "float tolerance 1e-9 relative"]
TECHNIQUE = ("exhaustive enumeration of compositions + Hypothesis property testing; oracle = exact-rational maximum over the "
             "documented candidate family, attainment check on the returned permutant, presentation-invariance (metamorphic)")
LEVEL_TEXT = ("Exploration: complete over every composition up to N=25 (quick) / 44 (thorough) x 3 presentations, sampled to 300 "
              "residues with boosted regime boundaries; value, attainment and composition-only dependence all asserted.")
LEVEL_NOTE = "Trusts vlc/ref.py:family/delta; tolerance 1e-9; nothing claimed beyond explored compositions."


def check_comp(ctx, case):
    P, M, Z = case["comp"]
    seqs = case["seqs"]
    refs = ref.dmax_refs(P, M, Z)
    reg = ref.regime(P, M, Z)
    cl = ["regime:" + reg]
    if Z in (17, 18, 19):
        cl.append("n0=%d" % Z)
    if P == M and P:
        cl.append("balanced")
    if reg == "one-charge-type" and Z == P + M:
        cl.append("equal-blocks")
    ctx.count(case, nontrivial=(P + M > 0 and max(refs) > 0), classes=cl)
    vals = []
    for s in seqs:
        o = util.spw(s, case)
        v = o.get_deltaMax()
        vals.append(v)
        ctx.check(any(ref.close(v, float(r)) for r in refs), "family-max",
                  "get_deltaMax()=%r for composition %s (%s); documented family maximum %s" % (v, (P, M, Z), reg, [float(r) for r in refs]), case)
        o2 = util.spw(s, case)
        res = o2.get_deltaMax(returnSeqDeltaMax=True)
        ctx.check(isinstance(res, tuple) and len(res) == 2, "permutant-shape", "get_deltaMax(True) returned %r" % (res,), case)
        v2, perm = res
        ctx.check(ref.close(v2, v), "permutant-value", "get_deltaMax(True)[0]=%r differs from get_deltaMax()=%r" % (v2, v), case)
        ctx.check(isinstance(perm, str) and sorted(perm) == sorted(s), "permutant-residues",
                  "permutant %r is not a rearrangement of %r" % (perm, s), case)
        dperm = ref.delta(ref.pattern(perm))
        ctx.check(ref.close(float(dperm), v2), "permutant-attains",
                  "permutant %r has delta %r, reported delta-max %r" % (perm, float(dperm), v2), case)
        # the object that has already reported the value is now asked for the permutant as well (and for the value again)
        res3 = o.get_deltaMax(returnSeqDeltaMax=True)
        ctx.check(isinstance(res3, tuple) and len(res3) == 2 and isinstance(res3[1], str) and sorted(res3[1]) == sorted(s), "permutant-after-value:shape",
                  "get_deltaMax(True) after get_deltaMax() returned %r" % (res3,), case)
        ctx.check(ref.close(res3[0], v) and ref.close(float(ref.delta(ref.pattern(res3[1]))), v), "permutant-after-value",
                  "get_deltaMax(True) on an object that had already answered get_deltaMax()=%r returned %r (delta of that permutant: %r)" % (
                      v, res3, float(ref.delta(ref.pattern(res3[1])))), case)
        v4 = o.get_deltaMax()
        ctx.check(ref.close(v4, v), "value-after-permutant", "get_deltaMax() changed from %r to %r after the permutant was requested" % (v, v4), case)
    for v in vals[1:]:
        ctx.check(ref.close(v, vals[0]), "composition-only",
                  "delta-max differs between presentations of composition %s: %r" % ((P, M, Z), vals), case)


def mk_case(P, M, Z, rnd, k):
    return {"comp": [P, M, Z], "seqs": [util.spell(util.arrange(P, M, Z, rnd), rnd) for _ in range(k - 1)] +
            [util.spell(util.arrange_blocky(P, M, Z, rnd), rnd)]}


def enum_cases(tier, seed):
    rnd = random.Random(seed)
    hi = 25 if tier == "quick" else 44
    for P, M, Z in util.all_compositions(hi):
        yield mk_case(P, M, Z, rnd, 3)


@st.composite
def hyp_case(draw, max_len):
    P, M, Z = draw(gens.compositions(max_len=max_len))
    s_ = draw(st.integers(0, Z)); m_ = draw(st.integers(0, Z - s_))
    blocky = "0" * s_ + (("+" * P + "0" * m_ + "-" * M) if draw(st.booleans()) else ("-" * M + "0" * m_ + "+" * P)) + "0" * (Z - s_ - m_)
    return {"comp": [P, M, Z], "seqs": [draw(gens.by_composition(P, M, Z)), draw(gens.spelled(blocky))],
            "warm": draw(gens.warmups(3)) if P + M + Z <= 40 else []}


def maximiser_cases(tier, seed):
    """Every composition at its brute-forced delta-maximising arrangement, queried after get_kappa() on the same object
    (the arrangement whose own delta may exceed the documented family maximum)."""
    rnd = random.Random(seed + 3)
    hi = 10 if tier == "quick" else 13
    from .. import patmax
    for P, M, Z in util.all_compositions(hi, 5):
        best = patmax.table(P + M + Z)[(P, M, Z)]
        yield {"comp": [P, M, Z], "seqs": [util.spell(best, rnd)], "warm": [["get_kappa", None]]}
        yield {"comp": [P, M, Z], "seqs": [util.spell(best, rnd)], "warm": [["get_deltaMax", [True]], ["get_delta", None]]}


def long_no_neutral_cases(tier, seed):
    """Both charge types, no neutral residue, majority block of 128 residues or more: every minority count (thorough) / a sixteenth (quick)."""
    rnd = random.Random(seed + 9)
    i = 0
    for maj in range(128, 171 if tier == "thorough" else 161):
        for mino in range(1, maj // 2 + 1):
            i += 1
            if tier == "quick" and i % 16 != seed % 16:
                continue
            P, M = (maj, mino) if rnd.random() < 0.5 else (mino, maj)
            yield {"comp": [P, M, 0], "seqs": [util.spell(util.arrange(P, M, 0, rnd), rnd)]}


def near_tie_cases(tier, seed):
    """Compositions whose documented candidate family holds a runner-up within 1e-5 (relative) of its maximum without being an exact
    tie (vlc/near_ties.json, regenerated from vlc/ref.py by vlc/mk_near_ties.py): where a tolerance-based early exit, a changed
    tie-break or a re-ordered search reports something other than the family maximum.  Each is presented once (random arrangement
    or its charge inversion); check_comp asks the same object for the value, then the permutant, then the value again."""
    import json
    import os
    rnd = random.Random(seed + 21)
    rows = json.load(open(os.path.join(os.path.dirname(os.path.dirname(__file__)), "near_ties.json")))["rows"]
    for i, (P, M, Z) in enumerate(rows):
        N = P + M + Z
        if tier == "quick" and N > 60 and i % 6 != seed % 6:
            continue
        if rnd.random() < 0.5:
            P, M = M, P
        yield {"comp": [P, M, Z], "seqs": [util.spell(util.arrange(P, M, Z, rnd), rnd)], "near_tie": True}


def check_neighbours(ctx, case):
    if "comp" in case:
        return check_comp(ctx, case)
    for c, s in zip(case["comps"], case["seqs"]):
        check_comp(ctx, {"comp": c, "seqs": [s], "neighbour_of": case["comps"][0]})


@st.composite
def neighbour_case(draw):
    comps = draw(gens.neighbour_compositions())
    return {"comps": comps, "seqs": [draw(gens.by_composition(*c)) for c in comps]}


def parts(tier):
    return [
        Part("enum-compositions", "enum", check=check_comp, cases=enum_cases, exhaustive=True,
             shards={"quick": 16, "thorough": 16}),
        Part("hyp-compositions", "hyp", check=check_comp,
             strategy=lambda t: hyp_case(120 if t == "quick" else 300),
             examples={"quick": 800, "thorough": 6400}, shards={"quick": 16, "thorough": 16}),
        Part("enum-maximisers-after-kappa", "enum", check=check_comp, cases=maximiser_cases, exhaustive=True, shards={"quick": 8, "thorough": 16}),
        Part("enum-long-no-neutrals", "enum", check=check_comp, cases=long_no_neutral_cases, exhaustive=False, shards={"quick": 16, "thorough": 16}),
        Part("enum-near-ties", "enum", check=check_comp, cases=near_tie_cases, exhaustive=False, shards={"quick": 16, "thorough": 16}),
        Part("hyp-long-neighbours", "hyp", check=check_neighbours, strategy=lambda t: neighbour_case(), shrink=False,
             examples={"quick": 64, "thorough": 1600}, shards={"quick": 16, "thorough": 16}),
    ]
