"""C18 — a Wang-Landau run obeys the WL update rule and its outputs are self-consistent.

Model-based replay: the harness owns every PRNG of the run (vlc/tape.py), observes the four Sequence moves, the machine's
own indexInsideRelevantRegion and its flat-check method through class-level wrappers (no source hook), and re-derives the
whole run from the same tape with a reference Wang-Landau model written from the property statement."""
import contextlib
import math
import os
import shutil
import tempfile

import numpy as np
from hypothesis import strategies as st

from .. import gens, ref, tape, util
from ..core import Part, Inconclusive

PROPERTY = "C18"
RULE = ("hyp: sequence (N=6..14 with kappa defined and >=2 residues of one charge sign so that every move is defined) x bin geometry drawn "
        "constructively as (M, lo, nb): partition of [0,1] into M in 2..12 (a quarter of the cases 13..45) equal bins, window of nb bins starting at bin lo, passed as "
        "binmin=lo/M, binmax=(lo+nb)/M, nbins=nb x flat-check period in {1,2,5,10..60} x flatness criterion in {0,0.1..0.9} x convergence in "
        "{e^0.6, e^0.3, e^0.15, e^0.08} (1-4 iterations) x tape seed; draw budget 40 000 (quick) / 200 000 (thorough) per run (runs cut by the "
        "budget are checked as prefixes). enum-geometry: bin centres and window of the constructed machine for every aligned request of every partition with up to 60/120 bins. Oracle: reference WL model replayed on the same tape - move class from the selector draw by the "
        "documented weights 1:41.5:69.3:78.2, move called on the model's current sequence, child a rearrangement of the input, bin = nearest "
        "centre of the equal partition for the child's true (fresh-object) kappa, out-of-window proposals never accepted and not counted, "
        "in-window proposals accepted iff u < min(1, exp(g_old-g_new)), g += ln f and H += 1 at the occupied bin, at every scheduled check "
        "the model's H, g, f, niter equal the machine's and 'flat <=> every window bin >= criterion x mean' decides sqrt(f)/reset, stop iff "
        "f <= threshold; returned array, DOS.txt, DOS_local.txt, histogram_bins.txt, hlog.txt, glog.txt, seqlog.txt agree with that bookkeeping. "
        "One case in five uses as threshold exactly the value f takes after 1-3 square roots (so that stopping is decided at f == threshold). One case in six runs the same machine twice and replays the second run (which must start from g=0, H=0 like the first). Non-trivial: run with >=1 accepted and >=1 rejected in-window proposal, >=1 out-of-window proposal and >=1 flat check that fired; "
        "distinct by the whole configuration.")
ASSUMPTIONS = ["structure assumed by the replay: one uniform draw selects the move, one decides acceptance (two draws of the loop's PRNG per step); "
               "a structural mismatch is reported as an instrumentation error (exit 2), not as a violation",
               "not asserted, only counted: a kappa equidistant (1e-12) from two bin centres (model follows the observed index if it is a tied "
               "candidate); a scheduled check at which the window histogram is entirely empty (mean 0: the model follows the observed outcome)",
               "bin requests that do not align with an equal partition of [0,1] are not generated (no defined 'bins of the requested range')",
               "liveness (convergence in bounded time) is not part of the property"]
TECHNIQUE = "model-based testing: Hypothesis-generated configurations and tape seeds, harness-owned PRNG tape, reference Wang-Landau model replayed step by step against the observed run (differential), output files parsed and compared with the model's bookkeeping"
LEVEL_TEXT = "Exploration of seeded runs x configurations; every step of every run is re-derived by the reference model from the same random tape."
LEVEL_NOTE = "Observation is from outside the loop (tape log, move/bin/flat-check wrappers, output files): g/H are compared at every scheduled check (period 1 = every step)."

WEIGHTS = (1.0, 41.5, 69.3, 78.2)
MOVE_NAMES = ("full_shuffle", "swapRandChargeRes", "permute_block_swap", "permute_cluster_charges")


class Mismatch(Exception):
    """Structural mismatch between the observation points and the run (instrumentation problem)."""


@contextlib.contextmanager
def observed():
    util.env.lc()
    from localcider.backend.sequence import Sequence
    from localcider.backend.wang_landau import WangLandauMachine as W
    log = dict(moves=[], index=[], flat=[])
    saved = {}
    for name in MOVE_NAMES:
        if not hasattr(Sequence, name):
            raise util.env.HarnessError("Sequence.%s no longer exists: the C18 observation points do not apply" % name)
        orig = getattr(Sequence, name)
        saved[("S", name)] = orig

        def mk(name, orig):
            def wrapped(self, *a, **k):
                rec = dict(move=name, parent=self.seq, child=None, frozen=sorted(int(x) for x in (a[0] if a else k.get("frozen", ()))))
                log["moves"].append(rec)
                out = orig(self, *a, **k)
                rec["child"] = getattr(out, "seq", None)
                return out
            return wrapped
        setattr(Sequence, name, mk(name, orig))
    fc = "_WangLandauMachine__run_flatcheck"
    for name in ("indexInsideRelevantRegion", fc):
        if not hasattr(W, name):
            raise util.env.HarnessError("WangLandauMachine.%s no longer exists: the C18 observation points do not apply" % name)
    oi, of = W.indexInsideRelevantRegion, getattr(W, fc)
    saved[("W", "indexInsideRelevantRegion")], saved[("W", fc)] = oi, of

    def windex(self, idx):
        ans = oi(self, idx)
        log["index"].append((int(idx), bool(ans)))
        return ans

    def wflat(self, H, Hlocal, niter, f, hlog, glog, g):
        rec = dict(H=[int(x) for x in H], Hlocal=[int(x) for x in Hlocal], niter=int(niter), f=float(f), g=[float(x) for x in g])
        out = of(self, H, Hlocal, niter, f, hlog, glog, g)
        rec.update(H2=[int(x) for x in out[0]], f2=float(out[1]), niter2=int(out[2]), nstep2=int(out[3]))
        log["flat"].append(rec)
        return out
    W.indexInsideRelevantRegion = windex
    setattr(W, fc, wflat)
    try:
        yield log
    finally:
        for (cls, name), orig in saved.items():
            setattr(Sequence if cls == "S" else W, name, orig)


def threshold(case):
    """Convergence threshold of a case: exp(conv), or - for 'conv_k' - exactly the value f takes after k square roots
    (computed by the same operations as the schedule, so that 'f is at most the threshold' is decided at equality)."""
    if case.get("conv_k"):
        f = np.exp(1)
        for _ in range(int(case["conv_k"])):
            f = f ** 0.5
        return float(f)
    return float(np.exp(case["conv"]))


def geometry(case):
    M, lo, nb = case["M"], case["lo"], case["nb"]
    return lo / M, (lo + nb) / M, nb


def run_observed(case):
    """Run the real sampler under observation; returns the trace."""
    from localcider.sequencePermutants import SequencePermutants
    binmin, binmax, nbins = geometry(case)
    t = tape.Tape(case["tape"], budget=case.get("budget", 40000), logging=True)
    out = tempfile.mkdtemp(prefix="vlc-wl-", dir="/dev/shm" if os.path.isdir("/dev/shm") else None)
    trace = dict(cut=False, error=None, result=None, files={})
    try:
        with tape.installed(t), observed() as log:
            try:
                sp = SequencePermutants(case["seq"])
                sp.initializeWangLandauParameters(out, frozen=set(), nbins=nbins, binmin=binmin, binmax=binmax, flatchck=case["period"],
                                                  flatcrit=case["crit"], convergence=threshold(case))
                trace["machine"] = dict(nbins_actual=int(sp.WLM.nbins_actual), relevant_min=int(sp.WLM.relevant_min), relevant_max=int(sp.WLM.relevant_max),
                                        centres=[float(x) for x in sp.WLM.getBinCenters()])
                base = 0
                if case.get("second_run"):
                    # the machine is run twice; the SECOND run is the one replayed (it must start from scratch like the first)
                    sp.WLM.run()
                    base = len(t.instances)
                    for k in log:
                        del log[k][:]
                    trace["first_run_draws"] = t.draws
                trace["result"] = np.asarray(sp.WLM.run(), dtype=float)
            except tape.Budget:
                trace["cut"] = True
        trace["log"] = log
        if case.get("second_run") and trace["cut"] and "first_run_draws" not in trace:
            trace["first_run_cut"] = True
        trace["loop_draws"] = list(t.instances[base].log) if len(t.instances) > base else []
        trace["n_instances"] = len(t.instances)
        for fn in ("DOS.txt", "DOS_local.txt", "hlog.txt", "glog.txt", "seqlog.txt", "histogram_bins.txt"):
            p = os.path.join(out, fn)
            if os.path.exists(p):
                trace["files"][fn] = open(p).read()
    finally:
        shutil.rmtree(out, ignore_errors=True)
    return trace


def fresh_kappa(seq, cache={}):
    if seq not in cache:
        if len(cache) > 20000:
            cache.clear()
        from localcider.backend.sequence import Sequence
        cache[seq] = float(Sequence(seq).kappa())
    return cache[seq]


def nearest_bins(centres, k):
    d = [abs(c - k) for c in centres]
    m = min(d)
    return [i for i, x in enumerate(d) if x - m <= 1e-12]


def check(ctx, case):
    seq = case["seq"]
    trace = run_observed(case)
    if trace.get("first_run_cut"):
        raise Inconclusive()
    c = lambda cond, bucket, msg: ctx.check(cond, bucket, msg, case)      # noqa
    # ---------------------------------------------------------------- geometry
    binmin, binmax, nbins = geometry(case)
    M = int(round(1.0 / ((binmax - binmin) / nbins)))
    centres = [(i + 0.5) / M for i in range(M)]
    lo = min(range(M), key=lambda i: abs(centres[i] - (binmin + (binmax - binmin) / nbins / 2)))
    hi = lo + nbins - 1
    mach = trace.get("machine")
    c(mach is not None, "construction", "the sampler could not be constructed/started for %r" % (case,))
    c(mach["nbins_actual"] == M and len(mach["centres"]) == M and all(ref.close(a, b) for a, b in zip(mach["centres"], centres)), "bin-centres",
      "bin centres %r are not the midpoints of the equal partition of [0,1] into %d bins" % (mach["centres"], M))
    c((mach["relevant_min"], mach["relevant_max"]) == (lo, hi), "window", "bin window %r, requested range [%g,%g] with %d bins is bins %d..%d" % ((mach["relevant_min"], mach["relevant_max"]), binmin, binmax, nbins, lo, hi))
    # ---------------------------------------------------------------- step-by-step replay
    from localcider.backend.sequence import Sequence
    start = Sequence(seq).deltaMax(returnSeqDeltaMax=True)[1]
    log, draws = trace["log"], trace["loop_draws"]
    moves, index, flats = log["moves"], log["index"], log["flat"]
    g = [0.0] * M
    H = [0] * M
    f = np.exp(1)
    thresh = threshold(case)
    niter = 0
    nstep = 0
    cur = start
    idx_old = nearest_bins(centres, fresh_kappa(cur))[-1] if len(nearest_bins(centres, fresh_kappa(cur))) == 1 else None
    if idx_old is None:
        ctx.cls("tie:start")
        raise Inconclusive()
    stats = dict(accepted=0, rejected=0, outside=0, checks=0, fired=0, steps=0, ties=0, empty_window_checks=0)
    total = sum(WEIGHTS)
    t = 0
    fi = 0
    done = False
    final_H_per_iter = []
    g_at_iter_end = []
    f_per_iter = []
    while not done:
        if 2 * t + 1 >= len(draws) or t >= len(index) or t >= len(moves) or moves[t]["child"] is None:
            break            # incomplete step (run cut by the budget)
        r, u = draws[2 * t], draws[2 * t + 1]
        mv = moves[t]
        # move class by the documented weights
        want = MOVE_NAMES[0] if r < WEIGHTS[0] / total else MOVE_NAMES[1] if r < (WEIGHTS[0] + WEIGHTS[1]) / total else \
            MOVE_NAMES[2] if r < (WEIGHTS[0] + WEIGHTS[1] + WEIGHTS[2]) / total else MOVE_NAMES[3]
        edge = min(abs(r - x / total) for x in (WEIGHTS[0], WEIGHTS[0] + WEIGHTS[1], WEIGHTS[0] + WEIGHTS[1] + WEIGHTS[2])) < 1e-12
        if not edge:
            c(mv["move"] == want, "move-weights", "step %d: selector draw %.6f selects %s by the weights 1:41.5:69.3:78.2, the run called %s" % (t, r, want, mv["move"]))
        c(mv["parent"] == cur, "current-sequence",
          "step %d: %s was called on %s but the chain's current sequence is %s (acceptance of the previous step: model and run disagree)" % (t, mv["move"], mv["parent"], cur))
        child = mv["child"]
        c(sorted(child) == sorted(seq), "not-a-rearrangement", "step %d: proposal %s is not a rearrangement of the input %s" % (t, child, seq))
        knew = fresh_kappa(child)
        cands = nearest_bins(centres, knew)
        obs_idx, obs_in = index[t]
        if len(cands) > 1:
            stats["ties"] += 1
            c(obs_idx in cands, "bin", "step %d: kappa %r of %s was binned into %d, nearest centres are %r" % (t, knew, child, obs_idx, cands))
            idx_new = obs_idx
        else:
            idx_new = cands[0]
            c(obs_idx == idx_new, "bin", "step %d: kappa %r of %s was binned into %d, the nearest centre is bin %d (%g)" % (t, knew, child, obs_idx, idx_new, centres[idx_new]))
        inside = lo <= idx_new <= hi
        c(obs_in == inside, "window-test", "step %d: bin %d reported %s the window %d..%d" % (t, idx_new, "inside" if obs_in else "outside", lo, hi))
        if inside:
            p = min(1.0, float(np.exp(g[idx_old] - g[idx_new])))
            accept = u < p
            if abs(u - p) < 1e-12 and p < 1.0:
                ctx.cls("tie:acceptance")
                raise Inconclusive()
            if accept:
                stats["accepted"] += 1
                cur = child
                kn = nearest_bins(centres, fresh_kappa(cur))
                idx_old = idx_new if idx_new in kn else kn[0]
            else:
                stats["rejected"] += 1
            g[idx_old] = g[idx_old] + np.log(f)
            H[idx_old] += 1
        else:
            stats["outside"] += 1
            accept = False
        nstep += 1
        stats["steps"] += 1
        t += 1
        if nstep % case["period"] == 0:
            if fi >= len(flats):
                break        # cut inside the check
            rec = flats[fi]
            fi += 1
            stats["checks"] += 1
            c(rec["H"] == H, "histogram", "check %d (after step %d): the run's histogram is %r, the WL rule gives %r" % (fi, t, rec["H"], H))
            c(rec["Hlocal"] == H[lo:hi + 1], "histogram-window", "check %d: local histogram %r, window of the model histogram %r" % (fi, rec["Hlocal"], H[lo:hi + 1]))
            c(len(rec["g"]) == M and all(ref.close(a, b) for a, b in zip(rec["g"], g)), "dos", "check %d (after step %d): the run's g is %r, the WL rule gives %r" % (fi, t, rec["g"], [float(x) for x in g]))
            c(ref.close(rec["f"], float(f)) and rec["niter"] == niter, "f-schedule", "check %d: f=%r niter=%d, model f=%r niter=%d" % (fi, rec["f"], rec["niter"], float(f), niter))
            local = H[lo:hi + 1]
            mean = sum(local) / float(len(local))
            if mean == 0:
                stats["empty_window_checks"] += 1
                flat = rec["niter2"] == niter + 1          # undecided by the statement: follow the run
            else:
                flat = all(x >= case["crit"] * mean - 1e-12 for x in local)
                near = any(abs(x - case["crit"] * mean) < 1e-9 for x in local)
                if near and (rec["niter2"] == niter + 1) != flat:
                    ctx.cls("tie:flatness")
                    raise Inconclusive()
                c((rec["niter2"] == niter + 1) == flat, "flatness", "check %d: window histogram %r, criterion %g x mean %g: %s, but the run %s" % (
                    fi, local, case["crit"], mean, "flat" if flat else "not flat", "reset" if rec["niter2"] == niter + 1 else "did not reset"))
            if flat:
                stats["fired"] += 1
                final_H_per_iter.append(list(H))
                g_at_iter_end.append([float(x) for x in g])
                f_per_iter.append(float(f))
                f = f ** 0.5
                H = [0] * M
                niter += 1
            c(rec["H2"] == H and ref.close(rec["f2"], float(f)) and rec["niter2"] == niter, "flat-update",
              "check %d: after the check the run has H=%r f=%r niter=%d, the rule gives H=%r f=%r niter=%d" % (fi, rec["H2"], rec["f2"], rec["niter2"], H, float(f), niter))
            nstep = 0
        if not (f > thresh):
            done = True
    # ---------------------------------------------------------------- alignment sanity (instrumentation, not a verdict)
    if not trace["cut"]:
        if not done:
            ctx.fail("stopping", "the run stopped after %d steps with f=%r > threshold %r" % (t, float(f), thresh), case)
        if len(draws) != 2 * t or len(index) != t or len(moves) != t or len(flats) != fi:
            ctx.fail("stopping", "the run continued after f=%r <= threshold %r (%d steps observed, %d explained by the rule)" % (float(f), thresh, len(index), t), case)
    # ---------------------------------------------------------------- outputs
    cl = ["M=%d" % M, "window:%s" % ("full" if nbins == M else "partial"), "period:%s" % ("1" if case["period"] == 1 else "2-9" if case["period"] < 10 else ">=10"),
          "crit:%s" % ("0" if case["crit"] == 0 else ">0"), "cut" if trace["cut"] else "converged", "iterations:%d" % niter] + (["second-run"] if case.get("second_run") else [])
    if not trace["cut"]:
        res = trace["result"]
        c(res is not None and res.shape == (2, M), "result-shape", "run() returned array of shape %r" % (None if res is None else res.shape,))
        c(all(ref.close(a, b) for a, b in zip(res[0], centres)) and all(ref.close(a, b) for a, b in zip(res[1], g)), "result",
          "returned array %r differs from (centres, g) = (%r, %r)" % (res.tolist(), centres, [float(x) for x in g]))
        files = trace["files"]
        check_files(ctx, case, files, centres, g, lo, hi, flats, seq, final_H_per_iter, g_at_iter_end, f_per_iter, thresh)
    nt = stats["accepted"] >= 1 and stats["rejected"] >= 1 and stats["outside"] >= 1 and stats["fired"] >= 1
    for k, v in stats.items():
        ctx.extra[k] = ctx.extra.get(k, 0) + v
    ctx.count(case, nontrivial=nt, classes=cl)


def rows(text):
    return [l for l in text.split("\n")]


def check_files(ctx, case, files, centres, g, lo, hi, flats, seq, final_H, g_end, f_iter, thresh):
    c = lambda cond, bucket, msg: ctx.check(cond, bucket, msg, case)      # noqa
    for fn in ("DOS.txt", "DOS_local.txt", "hlog.txt", "glog.txt", "seqlog.txt", "histogram_bins.txt"):
        c(fn in files, "file-missing", "%s was not written" % fn)
    # DOS
    for fn, rng in (("DOS.txt", range(len(centres))), ("DOS_local.txt", range(lo, hi + 1))):
        lines = [l for l in files[fn].split("\n") if l.strip()]
        c(len(lines) == 1 + len(list(rng)), "dos-file", "%s has %d data rows, expected %d" % (fn, len(lines) - 1, len(list(rng))))
        for l, i in zip(lines[1:], rng):
            parts = l.split("\t")
            c(len(parts) == 2 and abs(float(parts[0]) - centres[i]) <= 5.1e-4 and abs(float(parts[1]) - float(g[i])) <= 5.1e-7 * max(1, abs(float(g[i]))) + 5.1e-7, "dos-file",
              "%s row for bin %d is %r, bookkeeping has centre %.3f g %.6f" % (fn, i, l, centres[i], float(g[i])))
    # histogram bins: all centres then the window centres
    vals = [float(x) for x in files["histogram_bins.txt"].split()]
    want = centres + centres[lo:hi + 1]
    c(len(vals) == len(want) and all(abs(a - b) <= 5.1e-5 for a, b in zip(vals, want)), "bins-file", "histogram_bins.txt lists %r, expected %r" % (vals, [round(x, 4) for x in want]))
    # hlog: local histograms at each check, grouped by iteration
    hl = [l for l in files["hlog.txt"].split("\n")]
    it = 1
    k = 0
    seen_header = False
    for l in hl[1:]:
        if not l.strip():
            continue
        if l.startswith("iter"):
            c(l.strip() == "iter %d:" % it, "hlog", "hlog.txt iteration header %r, expected 'iter %d:'" % (l, it))
            seen_header = True
            continue
        parts = l.rstrip("\t").split("\t")
        c(seen_header and k < len(flats), "hlog", "hlog.txt has an unexpected row %r" % l)
        rec = flats[k]
        c(int(parts[0]) == k + 1 and [int(x) for x in parts[1:]] == rec["Hlocal"], "hlog", "hlog.txt row %r, check %d saw local histogram %r" % (l, k + 1, rec["Hlocal"]))
        c(rec["niter"] == it - 1, "hlog", "hlog.txt lists check %d under iteration %d, it belongs to iteration %d" % (k + 1, it, rec["niter"] + 1))
        if rec["niter2"] == rec["niter"] + 1:
            it += 1
        k += 1
    c(k == len(flats), "hlog", "hlog.txt has %d check rows, the run made %d checks" % (k, len(flats)))
    # glog: per-iteration g; increments = ln f_i x final histogram of iteration i
    gl = [l for l in files["glog.txt"].split("\n") if l.strip()][1:]
    c(len(gl) == len(g_end), "glog", "glog.txt has %d rows for %d completed iterations" % (len(gl), len(g_end)))
    prev = [0.0] * len(centres)
    for i, l in enumerate(gl):
        parts = l.rstrip("\t").split("\t")
        row = [float(x) for x in parts[1:]]
        c(int(parts[0]) == i + 1 and len(row) == len(centres), "glog", "glog.txt row %r malformed" % l)
        c(all(abs(a - b) <= 5.1e-5 + 1e-9 * abs(b) for a, b in zip(row, g_end[i])), "glog", "glog.txt row %d is %r, bookkeeping has %r" % (i + 1, row, g_end[i]))
        inc = [a - b for a, b in zip(row, prev)]
        wanti = [math.log(f_iter[i]) * h for h in final_H[i]]
        c(all(abs(a - b) <= 1.1e-4 for a, b in zip(inc, wanti)), "glog-increment",
          "iteration %d: g increments %r, ln f x final histogram = %r" % (i + 1, [round(x, 4) for x in inc], [round(x, 4) for x in wanti]))
        prev = row
    # seqlog
    sl = [l for l in files["seqlog.txt"].split("\n") if l.strip()][1:]
    for l in sl:
        parts = l.split("\t")
        c(len(parts) == 2 and sorted(parts[1]) == sorted(seq), "seqlog", "seqlog.txt row %r is not a rearrangement of the input" % l)
        k = fresh_kappa(parts[1])
        c(abs(float(parts[0]) - k) <= 5.1e-4, "seqlog", "seqlog.txt row %r: true kappa of that sequence is %.6f" % (l, k))


@st.composite
def wl_seq(draw):
    n = draw(st.integers(6, 14))
    kind = draw(st.sampled_from(["mixed", "mixed", "polyampholyte", "one-sign"]))
    if kind == "polyampholyte":
        s = draw(gens.exact_words("KRDE", n))
    elif kind == "one-sign":
        ch = draw(st.sampled_from(["KR", "DE"]))
        s = draw(gens.exact_words(ch * 2 + "GSAQ", n))
    else:
        s = draw(gens.exact_words("KKEEDRGSAPQ", n))
    pat = ref.pattern(s)
    P, Mn = sum(1 for x in pat if x > 0), sum(1 for x in pat if x < 0)
    Z = n - P - Mn
    lst = list(s)
    # construct (no filtering): make sure two residues of one sign exist and kappa is defined
    if max(P, Mn) < 2:
        lst[0], lst[1] = ("K", "K")
    s = "".join(lst)
    pat = ref.pattern(s)
    P, Mn = sum(1 for x in pat if x > 0), sum(1 for x in pat if x < 0)
    if (P == 0 or Mn == 0) and n - P - Mn == 0:
        lst = list(s)
        lst[-1] = "G"
        s = "".join(lst)
    return s


@st.composite
def hyp_case(draw, budget):
    seq = draw(wl_seq())
    M = draw(st.one_of(st.integers(3, 12), st.integers(2, 12), st.integers(3, 12), st.integers(13, 45)))
    lo = draw(st.integers(0, M - 1))
    nb = draw(st.one_of(st.just(M - lo), st.integers(1, M - lo), st.integers(1, M - lo)))
    if draw(st.integers(0, 3)) == 0:
        lo, nb = 0, M
    period = draw(st.one_of(st.sampled_from([1, 1, 2, 5]), st.integers(10, 60)))
    crit = draw(st.sampled_from([0, 0, 0.1, 0.2, 0.3, 0.5, 0.7, 0.9]))
    conv = draw(st.sampled_from([0.6, 0.6, 0.3, 0.15, 0.08]))
    case = {"seq": seq, "M": M, "lo": lo, "nb": nb, "period": period, "crit": crit, "conv": conv, "tape": draw(st.integers(0, 2 ** 32 - 1)), "budget": budget}
    if M > 12:
        case["crit"] = 0          # many bins: most are unreachable for a short sequence, so only criterion 0 terminates
        case["conv"] = 0.6
        case["period"] = min(case["period"], 20)
    if draw(st.integers(0, 4)) == 0 and M <= 12:
        case["conv_k"] = draw(st.integers(1, 3))      # stop exactly when f EQUALS the threshold
    if draw(st.integers(0, 5)) == 0:
        case["second_run"] = True
        case.pop("conv_k", None)
        case["crit"] = 0          # so that the first run terminates
        case["conv"] = 0.6
    return case


def geometry_cases(tier, seed):
    hi = 60 if tier == "quick" else 120
    for M in range(2, hi + 1):
        for lo in range(M):
            for nb in sorted(set([1, M - lo, max(1, (M - lo) // 2)])):
                yield {"M": M, "lo": lo, "nb": nb, "geometry_only": True}


def check_geometry(ctx, case):
    """Bin centres and window of the constructed machine for an aligned request (no sampling)."""
    if not case.get("geometry_only"):
        return check(ctx, case)
    from localcider.backend.wang_landau import WangLandauMachine
    binmin, binmax, nbins = geometry(case)
    M = case["M"]
    ctx.count(case, nontrivial=True, classes=["geometry"])
    m = WangLandauMachine("EKEKGSEK", tempfile.gettempdir(), set(), nbins, binmin, binmax, 10, 0.5, 1.5)
    centres = [(i + 0.5) / M for i in range(M)]
    got = [float(x) for x in m.getBinCenters()]
    ctx.check(int(m.nbins_actual) == M and len(got) == M and all(ref.close(a, b) for a, b in zip(got, centres)), "bin-centres",
              "request [%r, %r] with %d bins: %d bins with centres %r..., expected the %d midpoints of the equal partition" % (binmin, binmax, nbins, m.nbins_actual, got[:3], M), case)
    ctx.check((int(m.relevant_min), int(m.relevant_max)) == (case["lo"], case["lo"] + nbins - 1), "window",
              "request [%r, %r] with %d bins of a %d-bin partition: window %d..%d, expected %d..%d" % (binmin, binmax, nbins, M, m.relevant_min, m.relevant_max, case["lo"], case["lo"] + nbins - 1), case)


def parts(tier):
    return [
        Part("enum-geometry", "enum", check=check_geometry, cases=geometry_cases, exhaustive=True, shards={"quick": 8, "thorough": 16}),
        Part("hyp-wl-runs", "hyp", check=check, strategy=lambda t: hyp_case(40000 if t == "quick" else 200000),
             examples={"quick": 320, "thorough": 4800}, shards={"quick": 16, "thorough": 16}),
    ]
