"""C04 — composition parameters equal their published per-residue definitions."""
import itertools

from hypothesis import strategies as st

from .. import gens, ref, util
from ..core import Part

PROPERTY = "C04"
RULE = ("enum: the 20 single residues, all 400 ordered pairs and all 8000 ordered triples; hyp: sequences of all composition "
        "classes up to 400 (quick) / 800 (thorough) residues, half of them (<=40 residues) after a generated warm-up history of other API calls on the same object,, each with a generated permutation of itself. Oracle: every "
        "getter of the statement equals the fsum of the harness's own transcription of the published per-residue table "
        "divided by N (molecular weight: sum - 18(N-1)); identities FCR=f+ + f-, NCPR=f+ - f-, |NCPR|<=FCR<=1, counts sum to N, "
        "fractions sum to 1, mean net charge=|NCPR|, expanding=FCR+f_P, Uversky=KD_shifted/9; permutation invariance (1e-9; "
        "counts exact). Non-trivial: >=3 distinct residues (enum: every case); distinct by sequence. A quarter of the random cases build the object from a pasted spelling (lower case / trailing newline / blocks of ten / wrapped lines / tab). In the generated parts one clean word in eight is handed to the constructor as SeqObj=Sequence(lower/mixed-case text) instead of as a string (same object expected).")
ASSUMPTIONS = ["per-residue tables in vlc/ref.py are transcriptions of the cited scales (Kyte-Doolittle, Wimley-White with localCIDER's sign "
               "convention, Elam/Rucker/Shi PPII scales via Tomasso et al., average residue masses); a published value copied wrongly into "
               "both code and harness would be invisible",
               "float tolerance 1e-9 relative"]
TECHNIQUE = "exhaustive enumeration of 1-3 residue words + Hypothesis property testing; differential oracle = independent per-residue tables, algebraic identities, permutation metamorphic relation"
LEVEL_TEXT = ("Exploration: every table entry is exercised in isolation (20 singles), in all pairs and triples, and in random sequences of "
              "every composition class with permutations; all 20+ getters compared with independent tables.")
LEVEL_NOTE = "Trusts the transcribed tables in vlc/ref.py; tolerance 1e-9."

GETTERS = [
    ("countPos", "get_countPos", True), ("countNeg", "get_countNeg", True), ("countNeut", "get_countNeut", True),
    ("f_plus", "get_fraction_positive", False), ("f_minus", "get_fraction_negative", False),
    ("FCR", "get_FCR", False), ("NCPR", "get_NCPR", False), ("mean_net_charge", "get_mean_net_charge", False),
    ("expanding", "get_fraction_expanding", False), ("disorder", "get_fraction_disorder_promoting", False),
    ("kd", "get_mean_hydropathy", False), ("uversky", "get_uversky_hydropathy", False), ("ww", "get_WW_hydropathy", False),
    ("mw", "get_molecular_weight", False),
]


def observe(seq, case=None):
    o = util.spw(seq, case or {})
    out = {}
    for name, meth, _ in GETTERS:
        out[name] = getattr(o, meth)()
    for mode in ref.PPII:
        out["ppii_" + mode] = o.get_PPII_propensity(mode)
    out["ppii_default"] = o.get_PPII_propensity()
    out["ppii_upper"] = o.get_PPII_propensity("HILSER")
    for mode, spelt in (("creamer", "Creamer"), ("kallenbach", "KALLENBACH"), ("creamer", "cREAMER"), ("kallenbach", "Kallenbach"), ("hilser", "Hilser")):
        out["ppii_case:" + spelt] = o.get_PPII_propensity(spelt)
    out["fractions"] = o.get_amino_acid_fractions()
    return out


def check_seq(ctx, case):
    seq = case["seq"]
    N = len(seq)
    want = ref.composition(seq)
    cl = ["has:" + r for r in sorted(set(seq))] + gens.classify(seq)[:1]
    ctx.count(case, nontrivial=(len(set(seq)) >= 3 or case.get("enum", False)), classes=cl)
    got = observe(seq, case)
    for name, meth, exact in GETTERS:
        if exact:
            ctx.check(got[name] == want[name], "table:" + name, "%s()=%r, reference %r" % (meth, got[name], want[name]), case)
        else:
            ctx.check(ref.close(got[name], want[name]), "table:" + name, "%s()=%r, reference %r" % (meth, got[name], want[name]), case)
    for mode in ref.PPII:
        ctx.check(ref.close(got["ppii_" + mode], want["ppii_" + mode]), "table:ppii_" + mode,
                  "get_PPII_propensity(%r)=%r, reference %r" % (mode, got["ppii_" + mode], want["ppii_" + mode]), case)
    ctx.check(ref.close(got["ppii_default"], want["ppii_hilser"]), "ppii-default", "default PPII mode is not 'hilser'", case)
    ctx.check(ref.close(got["ppii_upper"], want["ppii_hilser"]), "ppii-case", "PPII mode name is not case-insensitive", case)
    for k in got:
        if k.startswith("ppii_case:"):
            mode = k.split(":")[1].lower()
            ctx.check(ref.close(got[k], want["ppii_" + mode]), "ppii-case", "get_PPII_propensity(%r)=%r, the %s scale gives %r" % (k.split(":")[1], got[k], mode, want["ppii_" + mode]), case)
    fr = got["fractions"]
    ctx.check(isinstance(fr, dict) and sorted(fr) == sorted(ref.AA), "fractions-keys", "get_amino_acid_fractions() keys %r" % (sorted(fr) if isinstance(fr, dict) else fr,), case)
    for a in ref.AA:
        ctx.check(ref.close(fr[a], want["fractions"][a]), "fractions-value", "fraction of %s = %r, reference %r" % (a, fr[a], want["fractions"][a]), case)
    # identities on the returned values themselves
    ctx.check(ref.close(got["FCR"], got["f_plus"] + got["f_minus"]), "id:FCR", "FCR != f+ + f-", case)
    ctx.check(ref.close(got["NCPR"], got["f_plus"] - got["f_minus"]), "id:NCPR", "NCPR != f+ - f-", case)
    ctx.check(abs(got["NCPR"]) <= got["FCR"] + 1e-12 and got["FCR"] <= 1 + 1e-12, "id:range", "|NCPR|<=FCR<=1 violated", case)
    ctx.check(got["countPos"] + got["countNeg"] + got["countNeut"] == N, "id:counts", "counts do not sum to N", case)
    ctx.check(ref.close(sum(fr.values()), 1.0), "id:fractions-sum", "fractions sum to %r" % (sum(fr.values()),), case)
    ctx.check(ref.close(got["mean_net_charge"], abs(got["NCPR"])), "id:mnc", "mean net charge != |NCPR|", case)
    ctx.check(ref.close(got["expanding"], got["FCR"] + fr["P"]), "id:expanding", "expanding != FCR + f_P", case)
    ctx.check(ref.close(got["uversky"], got["kd"] / 9.0), "id:uversky", "uversky != mean KD(0-9)/9", case)
    perm = case.get("perm")
    if perm:
        got2 = observe(perm)
        for k in got:
            if k == "fractions":
                ok = all(ref.close(got2[k][a], got[k][a]) for a in ref.AA)
            else:
                ok = ref.close(got2[k], got[k])
            ctx.check(ok, "permutation:" + k, "%s changed under permutation %s -> %s: %r vs %r" % (k, seq, perm, got[k], got2[k]), case)


def enum_cases(tier, seed):
    for n in (1, 2, 3):
        for w in itertools.product(ref.AA, repeat=n):
            yield {"seq": "".join(w), "enum": True}


@st.composite
def hyp_case(draw, max_len):
    r0 = draw(st.integers(0, 23))
    if r0 <= 1:
        s = draw(gens.long_charged(129, 500))
        return {"seq": s, "perm": s[::-1], "warm": []}
    if r0 == 2:
        s = draw(gens.name_concatenations(1, 12))
        return {"seq": s, "perm": s[::-1], "warm": []}
    warm = draw(gens.warmups())
    s = draw(gens.sequences(max_len=40 if warm else max_len))
    return {"seq": s, "perm": "".join(draw(st.permutations(list(s)))), "warm": warm, "paste": draw(gens.paste_opt())}


def _parts(tier):
    return [
        Part("enum-words", "enum", check=check_seq, cases=enum_cases, exhaustive=True, shards={"quick": 8, "thorough": 16}),
        Part("hyp-sequences", "hyp", check=check_seq, strategy=lambda t: hyp_case(400 if t == "quick" else 800),
             examples={"quick": 6400, "thorough": 32000}, shards={"quick": 8, "thorough": 16}),
    ]


def parts(tier):
    ps = _parts(tier)
    from .. import fuzz
    if tier == "thorough" and fuzz.available():
        # the same structured cases, generated coverage-guided: libFuzzer bytes drive the Hypothesis strategy (fuzz_one_input)
        ps.append(Part("atheris-guided", "custom", check=[p for p in ps if p.name == "hyp-sequences"][0].check, shards={"quick": 1, "thorough": 8},
                       run=lambda ctx, t, seed, idx, n: fuzz.hyp_campaign(ctx, "c04", "hyp-sequences", seed, idx, runs=30000)))
    return ps
