"""C17 — shuffles and moves only rearrange, keep frozen sites, stay self-consistent."""
import random

import numpy as np
from hypothesis import strategies as st

from .. import gens, ref, tape, util
from ..core import Part, Inconclusive

PROPERTY = "C17"
MOVES = ["sp-shuffle", "permutant", "swapRes", "swapRandChargeRes", "full_shuffle", "permute_block_swap", "permute_cluster_charges"]
MUST_SUCCEED = {"sp-shuffle", "permutant", "swapRes", "swapRandChargeRes", "full_shuffle"}
RULE = ("hyp: sequence (N=1..40, all composition classes incl. very short) x 'delta-max cached on the parent or not' x a chain of 1-8 moves from "
        "{SequenceParameters.get_shuffled_sequence(frozen as set or list), SequencePermutants.get_permutant(), Sequence.swapRes(i,j), "
        "swapRandChargeRes(frozen), full_shuffle(frozen), permute_block_swap(frozen), permute_cluster_charges(frozen)} each applied to the "
        "previous result, x frozen subset of positions (empty, few, most, all; one move in six also names 1-3 positions past the end of the sequence, as an overshooting freeze range does - they constrain nothing and the move must still succeed) (as a set or list of Python ints or of numpy integers) x 'apply the next move to the same object again or to the result' x random tape seed (every internal PRNG is owned by the "
        "harness; draw budget 20000 per case). enum: swapRes(i,j) for all i,j on every pattern with N<=4 (quick) / N<=5 (thorough), delta-max "
        "cached or not. Oracle per move: child residues are a rearrangement of the parent's; every frozen position holds its original residue; "
        "child.len == len(child.seq); child.chargePattern equals the pattern recomputed from child.seq; a carried-over dmax != -1 equals the "
        "delta-max of a fresh object on the child's string; child's counts, delta and kappa equal the fresh object's; the parent's sequence, "
        "charge pattern, dmax and phosphosites are unchanged; shuffles and swaps never raise. Non-trivial: some child string differs from "
        "its parent; distinct by the whole case.")
ASSUMPTIONS = ["swapRes may be given Python-style negative spellings of a position: a refusal (exception) is accepted, but a returned object is checked like any other",
               "frozen positions are 0-based indices, as the implementation and the sampler use them",
               "block swap and charge clustering may refuse (any exception) or exhaust the draw budget (inconclusive); whatever they return is checked",
               "KF-2: permute_block_swap / permute_cluster_charges ignore `frozen` - recorded known finding, matched only on the frozen-position assertion of those two moves"]
TECHNIQUE = "Hypothesis property testing over move chains with a harness-owned random tape (module-attribute shim, seeded, budgeted) + exhaustive swapRes pairs; oracle = multiset/frozen invariants and differential comparison with a freshly built object"
LEVEL_TEXT = "Exploration of sequences x frozen sets x move chains x random tapes; every returned object compared with a freshly built one."
LEVEL_NOTE = "Random choices inside the library are reproduced from the tape seed; nothing is claimed about tapes not drawn."


def backend():
    util.env.lc()
    from localcider.backend.sequence import Sequence
    return Sequence


def pat_of(obj):
    return [int(x) for x in np.asarray(obj.chargePattern).tolist()]


def do_move(cur, name, frozen, extra, as_list, as_np=False):
    if as_np:
        frozen = [np.int64(f) for f in frozen]        # positions as np.arange / np.where (and the sampler's freeze-file parser) produce them
    fz = (list(frozen) + list(frozen)[:2]) if as_list else set(frozen)        # a list may name a position more than once
    if name == "sp-shuffle":
        SPc = util.env.SP()
        return SPc(SeqObj=cur).get_shuffled_sequence(fz).SeqObj
    if name == "permutant":
        from localcider.sequencePermutants import SequencePermutants
        return SequencePermutants(cur.seq).get_permutant().SeqObj
    if name == "swapRes":
        i, j = extra[0] % cur.len, extra[1] % cur.len
        if len(extra) > 2 and extra[2]:
            # Python-style negative spelling of the same positions (accepted by list/array indexing)
            i = i - cur.len if extra[2] in (1, 3) else i
            j = j - cur.len if extra[2] in (2, 3) else j
        return cur.swapRes(i, j)
    if name == "swapRandChargeRes":
        return cur.swapRandChargeRes(set(frozen))
    if name == "full_shuffle":
        return cur.full_shuffle(fz)
    if name == "permute_block_swap":
        return cur.permute_block_swap(set(frozen))
    if name == "permute_cluster_charges":
        return cur.permute_cluster_charges(set(frozen))
    raise util.env.HarnessError("unknown move " + name)


def check(ctx, case):
    Sequence = backend()
    seq = case["seq"]
    t = tape.Tape(case.get("tape", 0), budget=20000)
    changed = False
    cl = ["cached" if case.get("cache") else "uncached", "chain:%d" % len(case["moves"])]
    refused = 0
    with tape.installed(t):
        cur = Sequence(seq)
        if case.get("cache"):
            cur.deltaMax()
        for mi, mv in enumerate(case["moves"]):
            name, frozen, extra = mv[0], [f % len(seq) for f in mv[1]], mv[2]
            as_list = bool(mv[3]) if len(mv) > 3 else False
            as_np = bool(mv[4]) if len(mv) > 4 else False
            stay = bool(mv[5]) if len(mv) > 5 else False
            beyond = [len(seq) + int(k) for k in mv[6]] if len(mv) > 6 else []    # positions past the end (a freeze range that overshoots)
            if name in ("permutant", "swapRes"):
                frozen, beyond = [], []           # these two take no frozen argument
            before = dict(seq=cur.seq, pat=pat_of(cur), dmax=cur.dmax, phos=list(cur.phosphosites), len=cur.len)
            what = "move %d %s(frozen=%s%s) on %s" % (mi, name, sorted(set(frozen)), "" if name != "swapRes" else ", i,j=%s" % extra, cur.seq)
            try:
                child = do_move(cur, name, frozen + beyond, extra, as_list, as_np)
                if beyond:
                    ctx.cls("frozen-beyond-end")
            except tape.Budget:
                ctx.cls("budget:" + name)
                raise Inconclusive()
            except Exception as e:   # noqa
                if name == "swapRes" and len(extra) > 2 and extra[2]:
                    ctx.cls("refused:swapRes-negative-index")       # negative spellings are not documented: a refusal is acceptable
                    continue
                if name in MUST_SUCCEED:
                    ctx.fail("raises:" + name, "%s raised %s: %s" % (what, type(e).__name__, e), case)
                refused += 1
                ctx.cls("refused:%s:%s" % (name, type(e).__name__))
                continue
            ctx.cls("move:" + name)
            ctx.check(hasattr(child, "seq") and isinstance(child.seq, str), "child-type", "%s returned %r" % (what, child), case)
            # the object it was called on is never altered
            ctx.check(cur.seq == before["seq"] and pat_of(cur) == before["pat"] and cur.len == before["len"], "parent-altered",
                      "%s altered the object it was called on: %s -> %s" % (what, before["seq"], cur.seq), case)
            ctx.check(cur.dmax == before["dmax"], "parent-dmax-altered", "%s changed the parent's cached delta-max %r -> %r" % (what, before["dmax"], cur.dmax), case)
            ctx.check(list(cur.phosphosites) == before["phos"], "parent-altered", "%s changed the parent's phosphosites" % what, case)
            # rearrangement
            ctx.check(sorted(child.seq) == sorted(before["seq"]), "not-a-rearrangement", "%s returned %s, not a rearrangement" % (what, child.seq), case)
            if child.seq != before["seq"]:
                changed = True
            # frozen sites
            moved = [i for i in set(frozen) if child.seq[i] != before["seq"][i]]
            if moved:
                key = "KF-2:" + name if name in ("permute_block_swap", "permute_cluster_charges") else None
                ctx.fail("frozen:" + name, "%s returned %s: frozen position(s) %s changed" % (what, child.seq, sorted(moved)), case, key=key)
            # self-consistency with a freshly built object
            fresh = Sequence(child.seq)
            ctx.check(child.len == len(child.seq), "len", "%s: child.len=%r, len(child.seq)=%d" % (what, child.len, len(child.seq)), case)
            ctx.check(pat_of(child) == ref.pattern(child.seq), "charge-pattern", "%s: child charge bookkeeping %r does not match its sequence %s (%r)" % (what, pat_of(child), child.seq, ref.pattern(child.seq)), case)
            ctx.check((child.countPos(), child.countNeg(), child.countNeut()) == (fresh.countPos(), fresh.countNeg(), fresh.countNeut()), "counts", "%s: child counts differ from a fresh object's" % what, case)
            if child.dmax != -1:
                fm = fresh.deltaMax()
                ctx.check(ref.close(child.dmax, fm), "carried-dmax", "%s: child carries delta-max %r, a fresh object on %s computes %r" % (what, child.dmax, child.seq, fm), case)
                ctx.cls("dmax-carried")
            ctx.check(ref.close(child.delta(), fresh.delta()), "delta", "%s: child delta %r, fresh %r" % (what, child.delta(), fresh.delta()), case)
            kc, kf = child.kappa(), Sequence(child.seq).kappa()
            ctx.check((kc == -1) == (kf == -1) and ref.close(kc, kf), "kappa", "%s: child kappa %r, fresh object %r" % (what, kc, kf), case)
            cur = cur if stay else child          # 'stay': the next move is applied to the same object again (e.g. with another frozen set)
    if any(mv[1] for mv in case["moves"]):
        cl.append("frozen-nonempty")
    ctx.count(case, nontrivial=changed, classes=cl + gens.classify(seq)[:1])


def enum_cases(tier, seed):
    hi = 4 if tier == "quick" else 5
    for p, s in util.spelled_patterns(1, hi, seed):
        for i in range(len(s)):
            for j in range(len(s)):
                for cache in (False, True):
                    yield {"seq": s, "cache": cache, "moves": [["swapRes", [], [i, j]]], "tape": 0}


@st.composite
def hyp_case(draw, max_len):
    seq = draw(gens.sequences(max_len=max_len, classes=gens.CLASSES + ["veryshort", "polyampholyte"]))
    N = len(seq)
    moves = []
    for _ in range(draw(st.integers(1, 8 if N <= 25 else 4))):
        name = draw(st.sampled_from(MOVES))
        fk = draw(st.sampled_from(["empty", "few", "few", "most", "all"]))
        if fk == "empty":
            frozen = []
        elif fk == "all":
            frozen = list(range(N))
        elif fk == "few":
            frozen = draw(st.lists(st.integers(0, N - 1), min_size=1, max_size=3, unique=True))
        else:
            free = draw(st.lists(st.integers(0, N - 1), max_size=3, unique=True))
            frozen = [i for i in range(N) if i not in free]
        ij = [draw(st.integers(0, N - 1)), draw(st.integers(0, N - 1))]
        if draw(st.integers(0, 3)) == 0:
            ij[1] = ij[0]                     # the same position twice
        ij.append(draw(st.sampled_from([0, 0, 1, 2, 3])))
        moves.append([name, frozen, ij, draw(st.booleans()), draw(st.integers(0, 3)) == 0, draw(st.integers(0, 2)) == 0])
        if draw(st.integers(0, 5)) == 0:
            # a freeze range that overshoots the sequence (the sampler's freeze-file parser does not clip): positions N, N+1, ... constrain nothing
            moves[-1].append(draw(st.lists(st.integers(0, 60), min_size=1, max_size=3, unique=True)))
    return {"seq": seq, "cache": draw(st.booleans()), "moves": moves, "tape": draw(st.integers(0, 2 ** 32 - 1))}


def parts(tier):
    return [
        Part("enum-swapRes", "enum", check=check, cases=enum_cases, exhaustive=True, shards={"quick": 8, "thorough": 16}),
        Part("hyp-move-chains", "hyp", check=check, strategy=lambda t: hyp_case(40),
             examples={"quick": 4800, "thorough": 32000}, shards={"quick": 16, "thorough": 16}),
    ]
