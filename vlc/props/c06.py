"""C06 — Omega and kappa_X are kappa of the recoded sequence."""
from hypothesis import strategies as st

from .. import gens, ref, util
from ..core import Part

PROPERTY = "C06"
RULE = ("hyp: sequences of all composition classes up to 60 (quick) / 150 (thorough) residues x groupings: one group = random subset "
        "of the 20 (including empty-complement and full), two groups = random disjoint non-empty subsets, members in random order and "
        "letter case, passed as list/tuple/set/string; invalid groups containing a non-amino-acid. enum: all 20 single-residue groups and "
        "the 190 unordered residue pairs as two singleton groups on seed-chosen sequences. Oracle: Omega == kappa of the two-letter "
        "recoding == kappa_X(PEDKR) == reference kappa of the recoded pattern; kappa == kappa_X(ED, KR); swap/order/case/container "
        "invariance; one group == its complement; invalid group raises; Omega_sequence is X at P/E/D/K/R and O elsewhere. "
        "omega cases may present the sequence as pasted text (blocks of ten, wrapped, padded, lower case); long-neighbours: compositions of one length 101..160 differing by one residue analysed in one process (kappa == kappa_X(ED,KR) == kappa_X(KR,ED) == reference); history cases ask 2-5 related groupings (all splits of subsets of a pool of <=5 residues, interleaved with kappa/Omega) of the SAME object and compare each answer with a fresh object. Non-trivial: both recoded classes present and kappa != -1; distinct by (sequence, groups). A quarter of the omega cases also check kappa = kappa_X(ED,KR) = fresh kappa on a shuffled child made after the parent answered get_kappa (library PRNG on the harness's tape); one omega case in six starts from an arrangement whose own delta beats the documented delta-max. In the generated parts one clean word in eight is handed to the constructor as SeqObj=Sequence(lower/mixed-case text) instead of as a string (same object expected).")
ASSUMPTIONS = ["overlapping groups are outside the domain (which group wins is undocumented; the swap law is false for them by construction)",
               "reference kappa of a recoded pattern is ref.kappa_from(exact delta, documented-family maximum); KF-1 (kappa>1.1) applies to "
               "recoded sequences as well and does not affect these equalities",
               "clamp-edge rule: when the exact ratio is within 1e-9 of 1 or 1.1 either side of the clamp is accepted"]
TECHNIQUE = "Hypothesis property testing with metamorphic relations (swap, order, case, complement) and a differential oracle (kappa of the explicitly recoded string; exact reference)"
LEVEL_TEXT = "Exploration: random sequences x random one/two-group partitions with all presentation variants; exhaustive single-residue and residue-pair groupings."
LEVEL_NOTE = "Overlapping groups not asserted; tolerance 1e-9 with clamp-edge rule."


def ref_kappa(recoded_pat):
    P = sum(1 for c in recoded_pat if c > 0)
    M = sum(1 for c in recoded_pat if c < 0)
    Z = len(recoded_pat) - P - M
    d = ref.delta(recoded_pat)
    outs = []
    edge = False
    for m in ref.dmax_refs(P, M, Z):
        k = ref.kappa_from(d, m)
        outs.append(float(k))
        edge = edge or ref.near_clamp_edge(d, m)
    return outs, edge


def eq_kappa(ctx, case, a, b, bucket, msg, edge=False):
    if (a == -1) != (b == -1):
        ctx.fail(bucket + "-sentinel", msg + ": %r vs %r" % (a, b), case)
    elif not ref.close(a, b):
        if edge:
            ctx.cls("clamp-edge")
        else:
            ctx.fail(bucket, msg + ": %r vs %r" % (a, b), case)


def present(group, style):
    """Present a set of residues as the container/case/order requested by `style` = [order, cases, container]."""
    order, cases, container = style
    members = [group[i] for i in order if i < len(group)] + [g for i, g in enumerate(group) if i not in order]
    members = [(m.lower() if cases[i % len(cases)] else m) for i, m in enumerate(members)]
    if container == "list":
        return members
    if container == "tuple":
        return tuple(members)
    if container == "set":
        return set(members)
    return "".join(members)


def check_omega(ctx, case):
    seq = case["seq"]
    o = util.spw(seq, case)
    om = o.get_Omega()
    rec = "".join("E" if r in ref.OMEGA_X else "K" for r in seq)
    both = any(r in ref.OMEGA_X for r in seq) and any(r not in ref.OMEGA_X for r in seq)
    ctx.count(case, nontrivial=(both and om != -1), classes=gens.classify(seq)[:2] + ["omega"])
    refs, edge = ref_kappa(ref.pattern(rec))
    eq_kappa(ctx, case, om, util.sp(rec).get_kappa(), "omega=kappa(recoded)", "get_Omega() vs kappa of %s" % rec, edge)
    eq_kappa(ctx, case, om, util.sp(seq).get_kappa_X(["P", "E", "D", "K", "R"]), "omega=kappaX", "get_Omega() vs get_kappa_X(PEDKR)", edge)
    if not any(((om == -1) == (r == -1)) and (om == -1 or ref.close(om, r)) for r in refs) and not edge:
        ctx.fail("omega=reference", "get_Omega()=%r, reference kappa of recoded pattern %r" % (om, refs), case)
    want = "".join("X" if r in ref.OMEGA_X else "O" for r in seq)
    got = util.spw(seq, case).get_Omega_sequence()
    ctx.check(got == want, "omega-sequence", "get_Omega_sequence()=%r, expected %r" % (got, want), case)
    # kappa == kappa_X(ED, KR)
    raw = case.get("raw", seq)
    ok_ = util.spw(raw, case)
    k = ok_.get_kappa()
    _r, kedge = ref_kappa(ref.pattern(seq))
    if case.get("child"):
        # a shuffled copy (made after its parent answered get_kappa) is a sequence like any other: the same identities hold on it
        ch = util.shuffled_child(ok_, case["child"])
        cs = ch.get_sequence()
        _r2, cedge = ref_kappa(ref.pattern(cs))
        ck = ch.get_kappa()
        eq_kappa(ctx, case, ck, ch.get_kappa_X(["E", "D"], ["K", "R"]), "child:kappa=kappaX(ED,KR)", "get_kappa() vs get_kappa_X(ED,KR) on the shuffled copy %s of %s" % (cs, seq), cedge)
        eq_kappa(ctx, case, ck, util.sp(cs).get_kappa(), "child:kappa=fresh", "get_kappa() of the shuffled copy %s of %s vs a fresh object of that sequence" % (cs, seq), cedge)
    eq_kappa(ctx, case, k, util.sp(raw).get_kappa_X(["E", "D"], ["K", "R"]), "kappa=kappaX(ED,KR)", "get_kappa() vs get_kappa_X(ED,KR) for input %r" % raw, kedge)
    if "raw" in case:
        eq_kappa(ctx, case, util.sp(raw).get_Omega(), om, "omega-raw", "get_Omega() of the pasted form %r vs of the clean word" % raw, edge)


def check_groups(ctx, case):
    seq, g1, g2 = case["seq"], case["g1"], case.get("g2")
    s1 = case.get("style1", [[], [False], "list"])
    s2 = case.get("style2", [[], [False], "list"])
    if g2:
        rec = "".join("E" if r in g1 else "K" if r in g2 else "G" for r in seq)
        both = any(r in g1 for r in seq) and any(r in g2 for r in seq)
    else:
        rec = "".join("E" if r in g1 else "K" for r in seq)
        both = any(r in g1 for r in seq) and any(r not in g1 for r in seq)
    refs, edge = ref_kappa(ref.pattern(rec))
    base = util.sp(seq).get_kappa_X(list(g1), list(g2) if g2 else None)
    ctx.count(case, nontrivial=(both and base != -1), classes=["groups:%d" % (2 if g2 else 1), "container:" + s1[2]] + gens.classify(seq)[:1],
              key=[seq, sorted(g1), sorted(g2 or [])])
    eq_kappa(ctx, case, base, util.sp(rec).get_kappa(), "kappaX=kappa(recoded)", "get_kappa_X vs kappa of recoded %s" % rec, edge)
    if not any(((base == -1) == (r == -1)) and (base == -1 or ref.close(base, r)) for r in refs) and not edge:
        ctx.fail("kappaX=reference", "get_kappa_X(%s,%s)=%r, reference %r" % (g1, g2, base, refs), case)
    # presentation invariance: order, case, container
    p1 = present(list(g1), s1)
    p2 = present(list(g2), s2) if g2 else None
    eq_kappa(ctx, case, base, util.sp(seq).get_kappa_X(p1, p2), "presentation", "order/case/container of group members changed kappa_X (%r, %r)" % (p1, p2), edge)
    if g2:
        eq_kappa(ctx, case, base, util.sp(seq).get_kappa_X(list(g2), list(g1)), "swap", "swapping the two groups changed kappa_X", edge)
    else:
        comp = [a for a in ref.AA if a not in g1]
        if comp:
            eq_kappa(ctx, case, base, util.sp(seq).get_kappa_X(comp), "complement", "one-group call differs from its complement %s" % comp, edge)


def check_invalid(ctx, case):
    seq, g1, g2 = case["seq"], case["g1"], case.get("g2")
    ctx.count(case, nontrivial=True, classes=["invalid-group"])
    ok, res = util.exc_name(util.sp(seq).get_kappa_X, g1, g2)
    ctx.check(not ok, "invalid-accepted", "get_kappa_X(%r, %r) with a non-amino-acid member returned %r instead of raising" % (g1, g2, res if ok else None), case)


def check_history(ctx, case):
    """Several related groupings (drawn over a small residue pool) asked of the SAME object, kappa/Omega in between: each answer
    must equal a fresh object's answer for that grouping."""
    seq = case["seq"]
    o = util.spw(seq, case)
    ctx.count(case, nontrivial=len(case["calls"]) >= 2, classes=["history:%d" % len(case["calls"])])
    for i, (g1, g2) in enumerate(case["calls"]):
        if g1 == "kappa":
            got, want, what = o.get_kappa(), util.sp(seq).get_kappa(), "get_kappa()"
        elif g1 == "omega":
            got, want, what = o.get_Omega(), util.sp(seq).get_Omega(), "get_Omega()"
        else:
            got = o.get_kappa_X(list(g1), list(g2) if g2 else None)
            want = util.sp(seq).get_kappa_X(list(g1), list(g2) if g2 else None)
            what = "get_kappa_X(%s, %s)" % (g1, g2)
        ctx.check((got == -1) == (want == -1) and ref.close(got, want), "history",
                  "call %d %s on an object that already answered %r returned %r; a fresh object returns %r" % (i, what, case["calls"][:i], got, want), case)


def check_neighbours(ctx, case):
    """Neighbouring compositions of one long length analysed in one process: kappa == kappa_X(ED,KR) == kappa_X(KR,ED) == reference."""
    ctx.count(case, nontrivial=True, classes=["long-neighbours:%d" % len(case["seqs"])])
    for s in case["seqs"]:
        refs, edge = ref_kappa(ref.pattern(s))
        k = util.sp(s).get_kappa()
        a = util.sp(s).get_kappa_X(["E", "D"], ["K", "R"])
        b = util.sp(s).get_kappa_X(["K", "R"], ["E", "D"])
        eq_kappa(ctx, case, a, b, "neighbours-swap", "swapping the groups changed kappa_X on a %d-residue sequence (after neighbouring compositions %r)" % (len(s), case["comps"]), edge)
        eq_kappa(ctx, case, k, a, "neighbours-kappa=kappaX", "get_kappa() vs get_kappa_X(ED,KR) on a %d-residue sequence" % len(s), edge)
        if not any(((k == -1) == (r == -1)) and (k == -1 or ref.close(k, r)) for r in refs) and not edge and not (k > 1):
            ctx.fail("neighbours-reference", "get_kappa()=%r, reference %r for composition %r" % (k, refs, case["comps"]), case)


def check(ctx, case):
    if "comps" in case:
        return check_neighbours(ctx, case)
    return {"omega": check_omega, "groups": check_groups, "invalid": check_invalid, "history": check_history}[case["kind"]](ctx, case)


def styles(n):
    return st.tuples(st.permutations(list(range(n))).map(list), st.lists(st.booleans(), min_size=1, max_size=5),
                     st.sampled_from(["list", "tuple", "set", "string"])).map(list)


BAD = ["X", "B", "Z", "J", "O", "U", "1", "*", "-", " ", "EK", "", "é", 5, None, "DE", "ST", "KLMN", "de", "AC", "RHK", "ala", "E,D", "ED "]


@st.composite
def hyp_case(draw, max_len):
    seq = draw(gens.sequences(max_len=max_len))
    kind = draw(st.sampled_from(["omega", "groups", "groups", "groups", "invalid", "history"]))
    if kind == "omega":
        if draw(st.integers(0, 5)) == 0:
            # an arrangement whose own delta exceeds the documented delta-max of its composition (kappa in or beyond the clamp band)
            from .c15 import beating_patterns
            seq = draw(gens.spelled(ref.pat_from_str(draw(st.sampled_from(beating_patterns())))))
        case = {"kind": kind, "seq": seq, "warm": draw(gens.warmups(3)) if len(seq) <= 40 else [], "child": draw(gens.child_opt())}
        if draw(st.integers(0, 2)) == 0:
            style = draw(st.sampled_from(["blocks", "wrapped", "padded", "lower"]))
            case["raw"] = {"blocks": " ".join(seq[i:i + 10] for i in range(0, len(seq), 10)), "wrapped": "\n".join(seq[i:i + 20] for i in range(0, len(seq), 20)) + "\n",
                           "padded": " " + seq + "\t ", "lower": seq.lower()}[style]
        return case
    if kind == "history":
        pool = sorted(draw(st.lists(st.sampled_from(sorted(set(seq)) + list("EDKRP")), min_size=2, max_size=5, unique=True)))
        calls = []
        for _ in range(draw(st.integers(2, 5))):
            r = draw(st.integers(0, 9))
            if r == 0:
                calls.append(["kappa", None])
            elif r == 1:
                calls.append(["omega", None])
            else:
                members = draw(st.lists(st.sampled_from(pool), min_size=1, max_size=len(pool), unique=True))
                members = sorted(members)
                cut = draw(st.integers(0, len(members)))
                g1, g2 = members[:cut], members[cut:]
                if not g1:
                    g1, g2 = g2, None
                calls.append([g1, g2 or None])
        return {"kind": kind, "seq": seq, "calls": calls, "warm": draw(gens.warmups(2))}
    if kind == "invalid":
        good = draw(st.lists(st.sampled_from(list(ref.AA)), max_size=4, unique=True))
        bad = draw(st.sampled_from(BAD))
        g = good + [bad]
        g = draw(st.permutations(g))
        other = draw(st.one_of(st.none(), st.just(["K", "R"])))
        if other and draw(st.booleans()):
            return {"kind": kind, "seq": seq, "g1": other, "g2": list(g)}
        return {"kind": kind, "seq": seq, "g1": list(g), "g2": other}
    two = draw(st.booleans())
    if two:
        # prefer residues that occur in the sequence so that both classes are usually present
        pool = draw(st.permutations(sorted(set(seq)) + [a for a in ref.AA if a not in seq]))
        n1 = draw(st.integers(1, 6))
        n2 = draw(st.integers(1, 6))
        g1, g2 = list(pool[:n1]), list(pool[n1:n1 + n2])
        return {"kind": kind, "seq": seq, "g1": g1, "g2": g2, "style1": draw(styles(len(g1))), "style2": draw(styles(len(g2)))}
    g1 = draw(st.lists(st.sampled_from(list(ref.AA)), min_size=0, max_size=20, unique=True))
    return {"kind": kind, "seq": seq, "g1": g1, "g2": None, "style1": draw(styles(len(g1)))}


def enum_cases(tier, seed):
    import itertools
    import random
    rnd = random.Random(seed)
    n = 2 if tier == "quick" else 8
    # every way of splitting the documented unions {E,D,K,R} and {P,E,D,K,R} into two groups (not only acid/base)
    for union in ("EDKR", "PEDKR"):
        for r in range(1, len(union)):
            for g1 in itertools.combinations(union, r):
                g2 = [x for x in union if x not in g1]
                for _ in range(n):
                    seq = "".join(rnd.choice(union * 3 + ref.AA) for _ in range(rnd.randint(8, 30)))
                    yield {"kind": "groups", "seq": seq, "g1": list(g1), "g2": g2}
    # delta-maximising arrangements (own delta may exceed the documented delta-max), asked after the permutant was requested
    from .. import patmax
    for N in (6, 7, 8):
        for comp, best in sorted(patmax.table(N).items()):
            if comp[0] and comp[1]:
                yield {"kind": "omega", "seq": util.spell(best, rnd), "warm": [["get_deltaMax", [True]]]}
    for a in ref.AA:
        for _ in range(n):
            seq = "".join(rnd.choice(a + ref.AA) for _ in range(rnd.randint(6, 30)))
            yield {"kind": "groups", "seq": seq, "g1": [a], "g2": None}
    for i, a in enumerate(ref.AA):
        for b in ref.AA[i + 1:]:
            for _ in range(n):
                seq = "".join(rnd.choice(a * 4 + b * 4 + ref.AA) for _ in range(rnd.randint(6, 30)))
                yield {"kind": "groups", "seq": seq, "g1": [a], "g2": [b]}


def _parts(tier):
    return [
        Part("enum-small-groups", "enum", check=check, cases=enum_cases, exhaustive=False, shards={"quick": 8, "thorough": 16}),
        Part("hyp-groupings", "hyp", check=check, strategy=lambda t: hyp_case(60 if t == "quick" else 150),
             examples={"quick": 2400, "thorough": 32000}, shards={"quick": 16, "thorough": 16}),
        Part("hyp-long-neighbours", "hyp", check=check, shrink=False,
             strategy=lambda t: gens.neighbour_compositions().flatmap(lambda comps: st.tuples(*[gens.by_composition(*c) for c in comps]).map(lambda ss: {"comps": comps, "seqs": list(ss)})),
             examples={"quick": 64, "thorough": 1200}, shards={"quick": 16, "thorough": 16}),
    ]


def parts(tier):
    ps = _parts(tier)
    from .. import fuzz
    if tier == "thorough" and fuzz.available():
        # the same structured cases, generated coverage-guided: libFuzzer bytes drive the Hypothesis strategy (fuzz_one_input)
        ps.append(Part("atheris-guided", "custom", check=[p for p in ps if p.name == "hyp-groupings"][0].check, shards={"quick": 1, "thorough": 8},
                       run=lambda ctx, t, seed, idx, n: fuzz.hyp_campaign(ctx, "c06", "hyp-groupings", seed, idx, runs=30000)))
    return ps
