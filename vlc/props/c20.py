"""C20 — HTML rendering shows each residue once, in order, in its palette colour."""
import re

from hypothesis import strategies as st

from .. import gens, ref, stateful, util
from ..core import Part

PROPERTY = "C20"
COLOURS = ['aqua', 'black', 'blue', 'fuchsia', 'gray', 'green', 'lime', 'maroon', 'navy', 'olive', 'orange', 'purple', 'red', 'silver', 'teal',
           'white', 'yellow']
RULE = ("stateful: two live objects (a sequence and its reversal; N=1..130 so that 10- and 50-blocks both occur) x a history of up to 8 (quick) / 15 (thorough) calls from "
        "{set_HTMLColorResiduePalette(d) with d valid (20 keys -> lower-case names from the 17, possibly extra keys) or invalid (one key "
        "missing; one value not a colour name: 'pink', '', '#ff0000', None, 'Red '), render}; a third of the updates pass one caller-owned dictionary object that is refilled, and possibly edited further after the call; a missing amino acid may be hidden behind extra keys; model palette updated only by valid dictionaries; "
        "every render is tokenised: N spans in order with residue i and colour model[residue]; a space before token i iff i%10==0; a <br> "
        "before token i iff i%50==0; nothing else inside the <p>; stripping tags and blanks recovers the sequence. enum: N in 1..130 with the "
        "default palette. Non-trivial: N>10 with >=1 palette change before a render; distinct by (sequence, history). Palettes arrive as dict, OrderedDict, defaultdict (complete ones) or a dict subclass; keys that are not amino acids may carry None, numbers or lists.")
ASSUMPTIONS = ["upper-case colour names are not generated: the property says 'one of the 17 standard names' and the code compares case-sensitively",
               "the tokeniser accepts either order of the space and the <br> that open a block"]
TECHNIQUE = "Hypothesis stateful testing (RuleBasedStateMachine) with a model palette; rendered string parsed by an independent tokeniser (round-trip to the sequence)"
LEVEL_TEXT = "Exploration of palette-update/render histories on sequences up to 130 residues; every render fully tokenised against the model."
LEVEL_NOTE = "Model palette = last accepted dictionary restricted to the 20 amino acids (initially the documented default palette)."

DEFAULT = {'A': 'black', 'C': 'black', 'D': 'red', 'E': 'red', 'F': 'orange', 'G': 'green', 'H': 'green', 'I': 'black', 'K': 'blue', 'L': 'black',
           'M': 'black', 'N': 'green', 'P': 'fuchsia', 'Q': 'green', 'R': 'blue', 'S': 'green', 'T': 'green', 'V': 'black', 'W': 'orange', 'Y': 'orange'}

TOKEN = re.compile(r'( |<br>)*<span style="color:([^"]*)">(.)</span>')


def check_render(ctx, html, seq, palette, what):
    ctx.check(isinstance(html, str) and html.startswith("<p") and html.endswith("</p>"), "wrapper", "%s: not wrapped in <p>...</p>: %r" % (what, html[:60]))
    m = re.match(r"<p[^>]*>(.*)</p>$", html, re.S)
    ctx.check(m is not None, "wrapper", "%s: cannot find the paragraph body" % what)
    body = m.group(1)
    pos = 0
    i = 0
    for i, res in enumerate(seq):
        mm = re.compile(r'((?: |<br>)*)<span style="color:([^"]*)">(.)</span>').match(body, pos)
        ctx.check(mm is not None, "token", "%s: residue %d (%s): unexpected markup at %r" % (what, i + 1, res, body[pos:pos + 50]))
        lead, colour, letter = mm.group(1), mm.group(2), mm.group(3)
        ctx.check(letter == res, "order", "%s: token %d shows %r, sequence has %r" % (what, i + 1, letter, res))
        ctx.check(colour == palette[res], "colour", "%s: residue %d (%s) coloured %r, palette says %r" % (what, i + 1, res, colour, palette[res]))
        want_space = (i % 10 == 0)
        want_br = (i % 50 == 0)
        ctx.check(lead.count(" ") == (1 if want_space else 0), "block-space", "%s: token %d is preceded by %r (space expected: %s)" % (what, i + 1, lead, want_space))
        ctx.check(lead.count("<br>") == (1 if want_br else 0), "block-break", "%s: token %d is preceded by %r (<br> expected: %s)" % (what, i + 1, lead, want_br))
        pos = mm.end()
    ctx.check(body[pos:] == "", "trailing", "%s: unexpected trailing markup %r" % (what, body[pos:pos + 50]))
    stripped = re.sub(r"<[^>]*>", "", html).replace(" ", "")
    ctx.check(stripped == seq, "roundtrip", "%s: stripping the markup gives %r, sequence is %r" % (what, stripped[:80], seq[:80]))


class _PaletteDict(dict):
    """A user-defined dictionary class (e.g. a settings object that derives from dict)."""


def as_container(kind, palette):
    """The same palette in the dictionary flavours a caller may hold it in: they are all dictionaries."""
    import collections
    if kind == "OrderedDict":
        return collections.OrderedDict(palette)
    if kind == "defaultdict" and all(a in palette for a in ref.AA):     # (with a key missing a defaultdict still "gives" a colour: not asserted)
        dd = collections.defaultdict(lambda: "black")
        dd.update(palette)
        return dd
    if kind == "subclass":
        return _PaletteDict(palette)
    return dict(palette)


class Sim:
    """Two live objects, each with its own model palette (a palette update on one must not show on the other)."""

    def __init__(self, ctx, init):
        self.ctx = ctx
        self.seqs = [init["seq"], init.get("seq2") or init["seq"][::-1]]
        self.objs = [util.sp(s) for s in self.seqs]
        self.models = [dict(DEFAULT), dict(DEFAULT)]
        self.changes = 0
        self.rejected = 0
        self.caller = {}         # a caller-owned dictionary that is edited in place and submitted again
        self.render_all("initial render")

    def render_all(self, what):
        for k in (0, 1):
            check_render(self.ctx, self.objs[k].get_HTMLColorString(), self.seqs[k], self.models[k], "%s, object %d" % (what, k))

    def apply(self, op, args):
        if op == "render":
            self.render_all("render after %d palette change(s)" % self.changes)
            return
        k = args.get("obj", 0) % 2
        if args.get("reuse"):
            self.caller.clear()
            self.caller.update(args["palette"])
            d = self.caller
        else:
            d = as_container(args.get("container", "dict"), args["palette"])
        valid = all(a in d for a in ref.AA) and all(isinstance(d[a], str) and d[a] in COLOURS for a in ref.AA)
        ok, res = util.exc_name(self.objs[k].set_HTMLColorResiduePalette, d)
        if valid:
            self.ctx.check(ok, "valid-palette-rejected", "valid palette rejected (%s): %r" % (res, d))
            self.models[k] = {a: d[a] for a in ref.AA}
            self.changes += 1
        else:
            self.ctx.check(not ok, "invalid-palette-accepted", "invalid palette (%s) accepted: %r" % (args.get("why"), d))
            ok2, _ = util.exc_name(self.objs[k].set_HTMLColorResiduePalette, dict(d))
            self.ctx.check(not ok2, "invalid-palette-accepted-on-retry", "invalid palette (%s) accepted when offered a second time: %r" % (args.get("why"), d))
            self.rejected += 1
        if args.get("reuse") and args.get("edit_after"):
            # the caller goes on editing ITS dictionary after the call: the object must have taken a copy
            a, col = args["edit_after"]
            self.caller[a] = col
            if args.get("drop_after"):
                self.caller.pop(args["drop_after"], None)
        # a rejected dictionary must leave the palette unchanged; an accepted one must take effect on that object only
        self.render_all("render after %s palette on object %d" % ("valid" if valid else "rejected (%s)" % args.get("why"), k))

    def finish(self):
        n = max(len(s) for s in self.seqs)
        cl = ["len>50" if n > 50 else "len>10" if n > 10 else "len<=10", "changes:%d" % min(self.changes, 5), "rejected:%d" % min(self.rejected, 5)]
        return (n > 10 and self.changes >= 1), cl


@st.composite
def palettes(draw):
    d = {a: draw(st.sampled_from(COLOURS)) for a in ref.AA}
    how = draw(st.sampled_from(["valid", "valid", "valid-extra", "missing", "missing-extra", "bad-colour", "late-bad-colour"]))
    if how == "valid-extra":
        # entries for anything but the 20 amino acids are not the palette's business, whatever their value
        d[draw(st.sampled_from(["X", "B", "a", "*", "AA", "-", "name"]))] = draw(st.sampled_from(COLOURS + ["pink", None, 0, 2.5, ["red"], ""]))
        how = "valid"
    elif how == "missing":
        del d[draw(st.sampled_from(list(ref.AA)))]
    elif how == "missing-extra":
        # an amino acid is missing although the dictionary still has 20 or more entries
        gone = draw(st.sampled_from(list(ref.AA)))
        del d[gone]
        for kx in draw(st.lists(st.sampled_from(["X", "B", "Z", gone.lower(), "*"]), min_size=1, max_size=3, unique=True)):
            d[kx] = draw(st.sampled_from(COLOURS))
    elif how == "bad-colour":
        d[draw(st.sampled_from(list(ref.AA)))] = draw(st.sampled_from(["pink", "", "#ff0000", None, "Red ", "cyan", "grey", " red", 5, "orangered", "yellowgreen", "navyblue", "red ", "blueviolet", "darkred", "limegreen",
                                                                     "RED", "re", "aquamarine", "whitesmoke"]))
    elif how == "late-bad-colour":
        # the invalid entry is the alphabetically last amino acid: a key-by-key commit would already have changed earlier ones
        d[draw(st.sampled_from(["Y", "W", "V"]))] = "pink"
    out = {"palette": d, "why": how, "obj": draw(st.integers(0, 1)), "container": draw(st.sampled_from(["dict", "dict", "dict", "OrderedDict", "defaultdict", "subclass"]))}
    if draw(st.integers(0, 2)) == 0:
        out["reuse"] = True
        if draw(st.booleans()):
            out["edit_after"] = [draw(st.sampled_from(list(ref.AA))), draw(st.sampled_from(COLOURS + ["pink"]))]
            if draw(st.integers(0, 3)) == 0:
                out["drop_after"] = draw(st.sampled_from(list(ref.AA)))
    return out


OPS = {"palette": palettes(), "render": st.just(None)}


@st.composite
def inits(draw):
    n = draw(st.one_of(st.integers(1, 130), st.sampled_from([1, 9, 10, 11, 49, 50, 51, 99, 100, 101, 130])))
    return {"seq": draw(gens.exact_words(ref.AA, n))}


def run(ctx, tier, seed, idx, nshards):
    stateful.run(ctx, Sim, OPS, inits(), n_examples={"quick": 200, "thorough": 1500}[tier], max_steps=8 if tier == "quick" else 15, seed=seed)


replay = stateful.replay_fn(Sim)


def enum_cases(tier, seed):
    import random
    rnd = random.Random(seed)
    for n in range(1, 131):
        yield {"init": {"seq": "".join(rnd.choice(ref.AA) for _ in range(n))}, "steps": [["render", None]]}


def parts(tier):
    return [
        Part("enum-lengths", "enum", check=replay, cases=enum_cases, exhaustive=False, shards={"quick": 2, "thorough": 4}),
        Part("stateful-palette", "custom", run=run, check=replay, shards={"quick": 16, "thorough": 16}),
    ]
