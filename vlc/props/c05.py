"""C05 — patterning parameters see only charge classes; reversal / inversion invariant."""
from hypothesis import strategies as st

from .. import gens, ref, util
from ..core import Part

PROPERTY = "C05"
RULE = ("enum: every +/-/0 pattern with N<=8 (quick) / N<=10 (thorough), spelled, against its reversal, its charge "
        "inversion and an independent respelling; every composition with N<=18 (quick) / 30 (thorough) plus n0 in 16..22/26 x n+,n- in 1..8/12: delta-max of one arrangement vs its inversion and reversal; hyp: sequences to 80 (quick) / 200 (thorough) residues x a generated chain of "
        "transformations from {class-preserving substitution at a random subset of positions, Omega-class-preserving "
        "substitution, reversal, K/R<->D/E inversion}. long-scd: SCD of long (129-330/560) highly charged sequences under reversal, inversion and respelling; enum-compositions also covers few-vs-many charge ratios (1..6 against 9..60/80) at 18-50 neutrals; long-neighbours: 2-4 compositions of one length 101..160 differing by one residue are analysed one after another, then compared with their inverted and reversed twins in the opposite order. Oracle: kappa, delta, delta-max, SCD (Omega for its own classes and for "
        "reversal) agree between original and transformed object to 1e-9 (either side of the clamp accepted when the exact "
        "ratio is within 1e-9 of 1 or 1.1; -1 sentinels must coincide). Non-trivial: transformed string differs and kappa "
        "is defined; distinct by (sequence, transformed sequence).")
ASSUMPTIONS = ["charge inversion maps K<->E and R<->D position-wise; neutral residues stay",
               "Omega is asserted only under Omega-class-preserving substitution, reversal, and their compositions; the statement's "
               "'all five are unchanged by exchanging positive with negative' is vacuous for Omega's own two-letter recoding "
               "(both charge signs are in the same Omega class), so inversion is asserted for Omega too"]
TECHNIQUE = "metamorphic testing: exhaustive short patterns + Hypothesis-generated transformation chains, comparing two runs of the real code"
LEVEL_TEXT = ("Exploration: complete over all patterns up to N=8/10 against reversal, inversion and respelling; sampled chains of "
              "substitutions/reversal/inversion on sequences up to 200 residues.")
LEVEL_NOTE = "Metamorphic oracle only (no reference values needed); tolerance 1e-9 with the stated clamp-edge rule."

INV = {"K": "E", "E": "K", "R": "D", "D": "R"}


def invert(s):
    return "".join(INV.get(r, r) for r in s)


def measures(seq, omega=True, case=None):
    o = util.spw(seq, case or {})
    out = dict(kappa=o.get_kappa(), delta=o.get_delta(), dmax=o.get_deltaMax(), scd=o.get_SCD())
    if omega:
        out["omega"] = util.sp(seq).get_Omega()
    return out


def near_edge(seq):
    pat = ref.pattern(seq)
    P = sum(1 for c in pat if c > 0)
    M = sum(1 for c in pat if c < 0)
    d = ref.delta(pat)
    return any(ref.near_clamp_edge(d, m) for m in ref.dmax_refs(P, M, len(pat) - P - M))


def omega_near_edge(seq):
    rec = "".join("E" if r in ref.OMEGA_X else "K" for r in seq)
    return near_edge(rec)


def compare(ctx, case, a, b, what, names):
    ma = measures(a, "omega" in names, case)
    mb = measures(b, "omega" in names)
    for n in names:
        x, y = ma[n], mb[n]
        if n in ("kappa", "omega"):
            if (x == -1) != (y == -1):
                ctx.fail(what + ":" + n + "-sentinel", "%s: %s %r vs %r (%s -> %s)" % (what, n, x, y, a, b), case)
                continue
            if not ref.close(x, y):
                edge = near_edge(a) if n == "kappa" else omega_near_edge(a)
                if edge:
                    ctx.cls("clamp-edge")
                    continue
        ctx.check(ref.close(x, y), what + ":" + n, "%s changed %s: %r vs %r (%s -> %s)" % (what, n, x, y, a, b), case)
    return ma


ALL = ["kappa", "delta", "dmax", "scd", "omega"]
CHARGE4 = ["kappa", "delta", "dmax", "scd"]


def check_enum(ctx, case):
    s = case["seq"]
    k = util.sp(s).get_kappa()
    rev, inv = s[::-1], invert(s)
    ctx.count(case, nontrivial=(k != -1 and (rev != s or inv != s)), classes=gens.classify(s))
    compare(ctx, case, s, rev, "reversal", ALL)
    compare(ctx, case, s, inv, "inversion", ALL)
    compare(ctx, case, s, case["respell"], "respell", CHARGE4)


def enum_cases(tier, seed):
    import random
    hi = 8 if tier == "quick" else 10
    rnd = random.Random(seed + 17)
    for p, s in util.spelled_patterns(1, hi, seed):
        yield {"seq": s, "respell": util.spell(p, rnd)}


def comp_cases(tier, seed):
    import random
    rnd = random.Random(seed + 5)
    hi = 18 if tier == "quick" else 30
    seen = set()
    for c in util.all_compositions(hi):
        seen.add(c)
        yield {"comp": list(c), "seq": util.spell(util.arrange(*c, rnd), rnd)}
    # lopsided charge ratios in the >=18-neutral regime (few of one sign, many of the other)
    for Z in ((18, 30) if tier == "quick" else (18, 19, 20, 24, 30, 50)):
        for few in range(1, 7):
            for many in range(9, 61 if tier == "quick" else 81, (1 if tier != "quick" else 2) if Z == 18 else 3):
                for (P, M) in ((many, few), (few, many)):
                    yield {"comp": [P, M, Z], "seq": util.spell(util.arrange(P, M, Z, rnd), rnd)}
    top = 8 if tier == "quick" else 12
    for Z in range(16, 23 if tier == "quick" else 27):
        for P in range(1, top + 1):
            for M in range(1, top + 1):
                if (P, M, Z) not in seen:
                    yield {"comp": [P, M, Z], "seq": util.spell(util.arrange(P, M, Z, rnd), rnd)}


def check_comp(ctx, case):
    """delta-max under inversion and reversal for every composition (reaches the n0>=18 regime, which short patterns cannot)."""
    s = case["seq"]
    P, M, Z = case["comp"]
    ctx.count(case, nontrivial=(P != M and P + M > 0), classes=["regime:" + ref.regime(P, M, Z)])
    a = util.sp(s).get_deltaMax()
    b = util.sp(invert(s)).get_deltaMax()
    c = util.sp(s[::-1]).get_deltaMax()
    ctx.check(ref.close(a, b), "comp-inversion:dmax", "delta-max changed under charge inversion: %r vs %r for %s" % (a, b, case["comp"]), case)
    ctx.check(ref.close(a, c), "comp-reversal:dmax", "delta-max changed under reversal: %r vs %r for %s" % (a, c, case["comp"]), case)


def check_long_scd(ctx, case):
    s = case["seq"]
    ctx.count(case, nontrivial=True, classes=["long-scd", "charged:%d" % (sum(1 for r in s if r in ref.POS + ref.NEG) // 64 * 64)])
    a = util.sp(s).get_SCD()
    for what, t in (("reversal", s[::-1]), ("inversion", invert(s)), ("respell", case["respell"])):
        b = util.sp(t).get_SCD()
        ctx.check(ref.close(a, b), "long-scd:" + what, "%s changed SCD of a %d-residue sequence: %r vs %r" % (what, len(s), a, b), case)


def check_neighbours(ctx, case):
    """2-4 compositions of one length > 100 differing by one residue, analysed one after another; then each against its
    charge-inverted and reversed twin (visited in the opposite order)."""
    seqs = case["seqs"]
    ctx.count(case, nontrivial=True, classes=["long-neighbours:%d" % len(seqs)])
    first = [measures(s, False) for s in seqs]
    for s, m in reversed(list(zip(seqs, first))):
        for what, t in (("inversion", invert(s)), ("reversal", s[::-1])):
            mt = measures(t, False)
            for n in ("kappa", "delta", "dmax"):
                ok = ((m[n] == -1) == (mt[n] == -1)) and ref.close(m[n], mt[n])
                if not ok and n == "kappa" and near_edge(s):
                    continue
                ctx.check(ok, "neighbours-" + what + ":" + n, "%s of a %d-residue sequence changed %s: %r vs %r (after analysing neighbouring compositions %r)" % (
                    what, len(s), n, m[n], mt[n], case["comps"]), case)


@st.composite
def neighbour_case(draw):
    comps = draw(gens.neighbour_compositions())
    return {"comps": comps, "seqs": [draw(gens.by_composition(*c)) for c in comps]}


def apply_ops(s, ops):
    """ops: list of [name, arg]; returns (transformed, charge_class_preserved, omega_class_preserved)."""
    t = s
    for name, arg in ops:
        if name == "reverse":
            t = t[::-1]
        elif name == "invert":
            t = invert(t)
        elif name == "subst":           # arg: list of [position, replacement]
            lst = list(t)
            for pos, rep in arg:
                lst[pos] = rep
            t = "".join(lst)
    return t


def check_chain(ctx, case):
    s, ops, kind = case["seq"], case["ops"], case["kind"]
    t = apply_ops(s, ops)
    if kind == "charge":
        # sanity of the generator (harness invariant, not a verdict)
        assert len(t) == len(s)
    names = CHARGE4 if kind == "charge" else ["omega"] if kind == "omega" else ALL
    k = util.sp(s).get_kappa()
    cl = gens.classify(s) + ["kind:" + kind] + ["op:" + o[0] for o in ops]
    ctx.count(case, nontrivial=(t != s and k != -1), classes=cl, key=[s, t])
    compare(ctx, case, s, t, "chain-" + kind, names)


@st.composite
def chains(draw, max_len):
    s = draw(gens.sequences(max_len=max_len))
    kind = draw(st.sampled_from(["charge", "charge", "omega", "symmetry"]))
    ops = []
    cur = s
    for _ in range(draw(st.integers(1, 3))):
        choices = ["reverse", "invert", "subst"] if kind != "symmetry" else ["reverse", "invert"]
        op = draw(st.sampled_from(choices))
        if op == "subst":
            n = draw(st.integers(1, max(1, min(len(cur), 12))))
            poss = draw(st.lists(st.integers(0, len(cur) - 1), min_size=1, max_size=n, unique=True))
            arg = []
            lst = list(cur)
            for pos in poss:
                r = lst[pos]
                if kind == "charge":
                    pool = ref.POS if r in ref.POS else ref.NEG if r in ref.NEG else ref.NEUTRAL
                else:
                    pool = ref.OMEGA_X if r in ref.OMEGA_X else ref.OMEGA_O
                rep = draw(st.sampled_from(pool))
                arg.append([pos, rep])
                lst[pos] = rep
            ops.append(["subst", arg])
            cur = "".join(lst)
        else:
            ops.append([op, None])
            cur = cur[::-1] if op == "reverse" else invert(cur)
    return {"seq": s, "ops": ops, "kind": kind, "warm": draw(gens.warmups(3)) if len(s) <= 40 else []}


def parts(tier):
    return [
        Part("enum-patterns", "enum", check=check_enum, cases=enum_cases, exhaustive=True,
             shards={"quick": 16, "thorough": 16}),
        Part("enum-compositions", "enum", check=check_comp, cases=comp_cases, exhaustive=True,
             shards={"quick": 16, "thorough": 16}),
        Part("hyp-chains", "hyp", check=check_chain,
             strategy=lambda t: chains(80 if t == "quick" else 200),
             examples={"quick": 2400, "thorough": 16000}, shards={"quick": 16, "thorough": 16}),
        Part("hyp-long-scd", "hyp", check=check_long_scd, shrink=False,
             strategy=lambda t: gens.long_charged(129, 330 if t == "quick" else 560).flatmap(lambda s: gens.spelled(ref.pattern(s)).map(lambda r: {"seq": s, "respell": r})),
             examples={"quick": 96, "thorough": 1600}, shards={"quick": 16, "thorough": 16}),
        Part("hyp-long-neighbours", "hyp", check=check_neighbours, strategy=lambda t: neighbour_case(), shrink=False,
             examples={"quick": 64, "thorough": 1200}, shards={"quick": 16, "thorough": 16}),
    ]
