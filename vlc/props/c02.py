"""C02 — delta equals the Das-Pappu blob-averaged asymmetry variance."""
from hypothesis import strategies as st

from .. import gens, ref, util
from ..core import Part

PROPERTY = "C02"
RULE = ("enum: every +/-/0 pattern of length 1..9 (quick) / 1..12 (thorough) spelled with seed-chosen residues of each "
        "class (so the residue->class table is exercised, H neutral in particular); hyp: sequences of all composition "
        "classes up to 120 (quick) / 500 (thorough) residues. About 4% of the random cases are 501-760 residues long and about 8% are long (129-400 residues), highly charged, regular sequences (homopolymers, diblocks, alternating, two-letter). Oracle: exact-rational mean over blob sizes 5,6 of the mean "
        "squared deviation of blob sigma from sequence sigma (a blob longer than the sequence contributes 0), tolerance "
        "1e-9; N<5 => 0, N==5 => delta_5/2, uncharged => 0. Non-trivial: N>=5, charged residue present, reference delta>0; "
        "distinct by sequence.")
ASSUMPTIONS = ["vlc/ref.py:delta is an independent exact-rational transcription of the Das-Pappu definition",
               "float tolerance 1e-9 relative (observed error < 1e-13)"]
TECHNIQUE = ("exhaustive enumeration of short charge patterns + Hypothesis property testing; differential oracle = "
             "exact-rational (fractions) evaluation of the published definition")
LEVEL_TEXT = ("Exploration: complete over all charge patterns up to length 9 (quick) / 12 (thorough) x a seed-chosen spelling, "
              "sampled above (all composition classes to 500 residues); each get_delta() compared with exact rational arithmetic.")
LEVEL_NOTE = "Trusts vlc/ref.py (definition transcribed from the statement); tolerance 1e-9; no claim beyond explored sizes."


def check_seq(ctx, case):
    seq = case["seq"]
    pat = ref.pattern(seq)
    N = len(seq)
    want = ref.delta(pat)
    charged = any(pat)
    cl = gens.classify(seq)
    if charged:
        cl.append("net-positive" if sum(pat) > 0 else "net-negative" if sum(pat) < 0 else "net-zero")
    if "H" in seq:
        cl.append("has-H")
    ctx.count(case, nontrivial=(N >= 5 and charged and want > 0), classes=cl)
    got = util.spw(case.get("raw", seq), case).get_delta()
    if N < 5:
        ctx.check(got == 0, "short", "delta must be 0 for N<5, got %r" % (got,), case)
    if not charged:
        ctx.check(got == 0, "uncharged", "delta must be 0 for an uncharged sequence, got %r" % (got,), case)
    if N == 5:
        ctx.check(ref.close(got, float(ref.delta_w(pat, 5) / 2)), "n5", "N=5: expected delta_5/2", case)
    ctx.check(ref.close(got, float(want)), "value", "get_delta()=%r, exact reference %s = %r" % (got, want, float(want)), case)


def enum_cases(tier, seed):
    hi = 9 if tier == "quick" else 12
    for p, s in util.spelled_patterns(1, hi, seed):
        yield {"seq": s}
        if 5 <= len(s) <= (8 if tier == "quick" else 10):
            yield {"seq": s, "warm": [["get_kappa", None]]}          # the same object has already cached its delta-max


@st.composite
def hyp_case(draw, max_len):
    r = draw(st.integers(0, 23))
    if r <= 1:
        return {"seq": draw(gens.long_charged(129, 400)), "warm": []}
    if r == 2:
        n = draw(st.integers(501, 760))
        return {"seq": draw(gens.exact_words(draw(st.sampled_from(["KRDEGSPQ", "KE", "KRDE" + ref.AA, ref.AA])), n)), "warm": []}
    warm = draw(gens.warmups())
    s = draw(gens.sequences(max_len=60 if warm else max_len))
    case = {"seq": s, "warm": warm}
    if draw(st.integers(0, 3)) == 0:
        # the same word as a user would paste it: blocks of ten, wrapped lines, padding, lower case (C13 says this is the same sequence)
        style = draw(st.sampled_from(["blocks", "wrapped", "padded", "lower"]))
        if style == "blocks":
            raw = " ".join(s[i:i + 10] for i in range(0, len(s), 10))
        elif style == "wrapped":
            raw = "\n".join(s[i:i + 60] for i in range(0, len(s), 60)) + "\n"
        elif style == "padded":
            raw = "  " + s + " \t"
        else:
            raw = s.lower()
        case["raw"] = raw
    return case


def parts(tier):
    return [
        Part("enum-patterns", "enum", check=check_seq, cases=enum_cases, exhaustive=True,
             shards={"quick": 8, "thorough": 16}),
        Part("hyp-sequences", "hyp", check=check_seq,
             strategy=lambda t: hyp_case(120 if t == "quick" else 500),
             examples={"quick": 6400, "thorough": 32000}, shards={"quick": 4, "thorough": 16}),
    ]
