"""C07 — SCD equals the Sawle-Ghosh sum."""
from hypothesis import strategies as st

from .. import gens, ref, util
from ..core import Part

PROPERTY = "C07"
RULE = ("enum: every +/-/0 pattern of length 1..9 (quick) / 1..11 (thorough), spelled with seed-chosen residues of "
        "each class; hyp: sequences of all composition classes up to 300 (quick) / 500 (thorough) residues (half of them, <=60 residues, after a generated warm-up history of other API calls on the same object), each with an independent "
        "respelling. Oracle: (1/N) sum_{m>n} q_m q_n sqrt(m-n) with math.fsum, tolerance 1e-9 relative; exactly 0 "
        "with fewer than two charged residues; respelling leaves the value unchanged. Non-trivial: at least two "
        "charged residues; distinct by sequence. A quarter of the random cases use a pasted spelling; a quarter also check the SCD of a shuffled child (optionally with frozen positions) against the reference for the child's own sequence. In the generated parts one clean word in eight is handed to the constructor as SeqObj=Sequence(lower/mixed-case text) instead of as a string (same object expected).")
ASSUMPTIONS = ["reference SCD is an independent transcription of the Sawle-Ghosh definition (vlc/ref.py:scd)",
               "float tolerance 1e-9 relative (observed error < 1e-13)"]


def check_seq(ctx, case):
    seq = case["seq"]
    pat = ref.pattern(seq)
    ncharged = sum(1 for q in pat if q)
    ctx.count(case, nontrivial=ncharged >= 2, classes=gens.classify(seq))
    o = util.spw(seq, case)
    got = o.get_SCD()
    want = ref.scd(pat)
    if case.get("child"):
        # a shuffled copy is a sequence like any other: its SCD is that of its own charge pattern
        ch = util.shuffled_child(o, case["child"])
        cs = ch.get_sequence()
        ctx.check(sorted(cs) == sorted(seq), "child-not-a-rearrangement", "get_shuffled_sequence returned %r for %r" % (cs, seq), case)
        ctx.check(ref.close(ch.get_SCD(), ref.scd(ref.pattern(cs))), "child-value", "get_SCD()=%r on the shuffled copy %s (frozen %r) of %s, reference %r" % (
            ch.get_SCD(), cs, case["child"].get("frozen"), seq, ref.scd(ref.pattern(cs))), case)
    if ncharged < 2:
        ctx.check(got == 0, "zero", "SCD must be exactly 0 with <2 charged residues, got %r" % (got,), case)
    ctx.check(ref.close(got, want), "value", "get_SCD()=%r, reference %r" % (got, want), case)
    alt = case.get("respell")
    if alt:
        got2 = util.sp(alt).get_SCD()
        ctx.check(ref.close(got2, got), "respell", "SCD changed under class-preserving respelling %s -> %s: %r vs %r" % (seq, alt, got, got2), case)


def enum_cases(tier, seed):
    hi = 9 if tier == "quick" else 11
    for p, s in util.spelled_patterns(1, hi, seed):
        yield {"seq": s}


@st.composite
def hyp_case(draw, max_len):
    if draw(st.integers(0, 15)) == 0:
        s = draw(gens.long_charged(129, 330))
        return {"seq": s, "respell": draw(gens.spelled(ref.pattern(s))), "warm": []}
    warm = draw(gens.warmups())
    s = draw(gens.sequences(max_len=60 if warm else max_len))
    alt = draw(gens.spelled(ref.pattern(s)))
    return {"seq": s, "respell": alt, "warm": warm, "paste": draw(gens.paste_opt()), "child": draw(gens.child_opt())}


def few_charge_cases(tier, seed):
    """0, 1, 2 or 3 charged residues at seed-chosen positions for every length 1..400 (2 charges: every length; others: every 7th);
    plus long sequences whose length is a power of two or next to one, with charged termini."""
    import random
    rnd = random.Random(seed + 41)
    for N in range(1, 401):
        for c in (2,) if N % 7 else (0, 1, 2, 3):
            if c > N:
                continue
            lst = [rnd.choice(ref.NEUTRAL) for _ in range(N)]
            for p in rnd.sample(range(N), c):
                lst[p] = rnd.choice("KRDE")
            yield {"seq": "".join(lst)}
    for N in ((511, 512, 513) if tier == "quick" else (511, 512, 513, 1023, 1024, 1025, 1026)):
        body = [rnd.choice("GSEK" if i % 9 else "KE") for i in range(N)]
        body[0], body[-1] = "K", "E"
        yield {"seq": "".join(body)}


def parts(tier):
    return [
        Part("enum-patterns", "enum", check=check_seq, cases=enum_cases, exhaustive=True,
             shards={"quick": 8, "thorough": 16}),
        Part("enum-few-charges-and-lengths", "enum", check=check_seq, cases=few_charge_cases, exhaustive=False, shards={"quick": 16, "thorough": 16}),
        Part("hyp-sequences", "hyp", check=check_seq,
             strategy=lambda t: hyp_case(300 if t == "quick" else 500),
             examples={"quick": 6400, "thorough": 32000}, shards={"quick": 16, "thorough": 16}),
    ]

TECHNIQUE = "exhaustive enumeration of short charge patterns + Hypothesis property testing against an independent fsum reference (differential oracle) and a respelling metamorphic relation"
LEVEL_TEXT = ("Exploration: every charge pattern up to length 9/11 is compared with an independent evaluation of the Sawle-Ghosh "
              "double sum, plus random sequences of all composition classes up to 300 residues. Complete below the bound, sampled above.")
LEVEL_NOTE = "Trusts vlc/ref.py:scd as the definition; float tolerance 1e-9 relative; nothing is claimed beyond the explored sizes."
