"""C01 — kappa = delta/delta-max, in [0,1], -1 only when undefined."""
import os
import random
from fractions import Fraction as F

from hypothesis import strategies as st

from .. import gens, patmax, ref, util
from ..core import Part, load_known

PROPERTY = "C01"
RULE = ("maximisers: every composition (n+,n-,n0) with N<=11 (quick) / N<=15 (thorough); its delta-maximising arrangement "
        "(brute force over all 3^N patterns) and 2 seed-chosen arrangements, each spelled with random residues, are fed to "
        "the real get_kappa/get_delta/get_deltaMax. patterns: every +/-/0 pattern with N<=8 (quick) / N<=10 (thorough). "
        "few-charges: 1-3 charged residues among up to 40/80 neutral ones, two arrangements each. hyp: sequences of all composition classes up to 100 (quick) / 300 (thorough) residues incl. single-minority-charge "
        "homopolymers. long-neighbours: 2-4 compositions of one length 101..160 differing by one residue, analysed one after another in the same process. Oracle on the returned k,d,m: (a) k==-1 <=> m==0; (b) m!=0 => k==1.0 if 1<d/m<1.1 else d/m; "
        "(c) k==-1 or 0<=k<=1; fidelity d==exact delta, m==documented-family maximum. Non-trivial: m>0, N>=5 and a "
        "charged residue; distinct by sequence.")
ASSUMPTIONS = ["vlc/ref.py (exact delta, documented delta-max family) is the reference for d and m",
               "a ratio within 1e-9 of 1 or 1.1 may fall on either side of the clamp (counted as 'clamp-edge', never a violation)",
               "KF-1: kappa > 1.1 caused by the documented candidate family missing the true maximiser is a recorded known "
               "finding, matched only when the code computes delta and delta-max faithfully (see known_findings.jsonl)"]
TECHNIQUE = ("exhaustive enumeration (all compositions with brute-forced delta-maximisers; all short patterns) + Hypothesis "
             "property testing; oracle = stated ratio/clamp/sentinel rule on returned values + exact-rational reference for delta and delta-max")
LEVEL_TEXT = ("Exploration: complete over every composition up to N=11 (quick) / 15 (thorough) at its true delta-maximiser (the input "
              "most likely to push kappa above 1) and every pattern up to N=8/10; sampled above to 300 residues.")
LEVEL_NOTE = ("Trusts vlc/ref.py; the known finding KF-1 (kappa>1.1 for listed compositions, inherent to the documented search) is "
              "reported as KNOWN-FINDING, any other way of leaving [0,1] is a violation.")

_known_comps = None


def known_comps():
    global _known_comps
    if _known_comps is None:
        kf = load_known()[0].get("KF-1")
        _known_comps = set(tuple(c) for c in (kf or {}).get("compositions_N_le_15", []))
    return _known_comps


def check_seq(ctx, case):
    seq = case["seq"]
    pat = ref.pattern(seq)
    N = len(seq)
    P = sum(1 for c in pat if c > 0)
    M = sum(1 for c in pat if c < 0)
    Z = N - P - M
    d_ref = ref.delta(pat)
    m_refs = ref.dmax_refs(P, M, Z)
    o = util.spw(seq, case)
    k = o.get_kappa()
    o2 = util.spw(seq, case)
    d = o2.get_delta()
    m = o2.get_deltaMax()
    cl = gens.classify(seq)
    ctx.count(case, nontrivial=(m > 0 and N >= 5 and P + M > 0), classes=cl)
    # fidelity of the two ingredients
    d_ok = ref.close(d, float(d_ref))
    m_ok = any(ref.close(m, float(r)) for r in m_refs)
    ctx.check(d_ok, "delta-fidelity", "get_delta()=%r, exact %r" % (d, float(d_ref)), case)
    ctx.check(m_ok, "dmax-fidelity", "get_deltaMax()=%r, documented family max %r" % (m, [float(r) for r in m_refs]), case)
    # (a) sentinel
    a_ok = (k == -1) == (m == 0)
    ctx.check(a_ok, "sentinel", "kappa=%r but deltaMax=%r" % (k, m), case)
    if m == 0:
        ctx.cls("sentinel" + ("-with-charges" if P + M else "-uncharged"))
        return
    # (b) ratio and clamp, on the returned values
    r = d / m
    exact_r = d_ref / max(m_refs)
    edge = any(abs(F(d_ref) / F(x) - t) <= F(1, 10 ** 9) for x in m_refs if x != 0 for t in (F(1), F(11, 10)))
    want = 1.0 if (r > 1.0 and r < 1.1) else r
    if edge:
        ctx.cls("clamp-edge")
        b_ok = ref.close(k, want) or ref.close(k, 1.0) or ref.close(k, r)
    else:
        b_ok = ref.close(k, want)
    ctx.check(b_ok, "ratio-rule", "kappa=%r but delta/deltaMax=%r/%r=%r (rule gives %r)" % (k, d, m, r, want), case)
    if 1 < exact_r < F(11, 10):
        ctx.cls("clamp-region")
    # (c) range
    if not (0 <= k <= 1 + 1e-12):
        key = None
        if k > 1 and a_ok and b_ok and d_ok and m_ok and exact_r >= F(11, 10) - F(1, 10 ** 9):
            key = "KF-1"
            if case.get("enumerated") and N <= 15 and (P, M, Z) not in known_comps() and not os.environ.get("VLC_KF1_COLLECT"):
                key = None   # a composition that did not exceed 1.1 when the finding was recorded
            ctx.extra.setdefault("kf1_compositions", set()).add((P, M, Z))
        ctx.fail("range", "kappa=%r outside [0,1] for %s (delta=%r, deltaMax=%r)" % (k, seq, d, m), case, key=key)


def maximiser_cases(tier, seed):
    rnd = random.Random(seed)
    hi = 11 if tier == "quick" else 15
    for P, M, Z in util.all_compositions(hi):
        yield {"comp": [P, M, Z], "seed": rnd.randrange(2 ** 30)}


def check_maximiser(ctx, case):
    if "seq" in case:      # replay of a minimal failing sub-case
        return check_seq(ctx, case)
    P, M, Z = case["comp"]
    rnd = random.Random(case["seed"])
    best = patmax.table(P + M + Z)[(P, M, Z)]
    arrangements = [best] + [util.arrange(P, M, Z, rnd) for _ in range(2)]
    for i, a in enumerate(arrangements):
        sub = {"seq": util.spell(a, rnd), "enumerated": True, "maximiser": i == 0}
        check_seq(ctx, sub)


def few_charge_cases(tier, seed):
    """1-3 charged residues (every split into + and -) among 0..40 / 0..80 neutral ones: two arrangements each."""
    rnd = random.Random(seed + 23)
    for Z in range(0, 41 if tier == "quick" else 81):
        for c in (1, 2, 3):
            for P in range(c + 1):
                M = c - P
                if Z >= 18 or P == 0 or M == 0 or Z == 0 or Z <= 8:
                    for _ in range(2):
                        yield {"seq": util.spell(util.arrange(P, M, Z, rnd), rnd), "enumerated": True}


def pattern_cases(tier, seed):
    hi = 8 if tier == "quick" else 10
    for p, s in util.spelled_patterns(1, hi, seed):
        yield {"seq": s, "enumerated": True}


@st.composite
def hyp_case(draw, max_len):
    if draw(st.integers(0, 5)) == 0:
        # long homopolymer of one sign with one minority charge and one neutral (historical failures)
        n = draw(st.integers(5, max_len))
        maj, mino = draw(st.sampled_from([("K", "E"), ("E", "K"), ("R", "D"), ("D", "R")]))
        s = [maj] * n
        s[draw(st.integers(0, n - 1))] = mino
        if draw(st.booleans()):
            s[draw(st.integers(0, n - 1))] = draw(st.sampled_from(ref.NEUTRAL))
        return {"seq": "".join(s), "warm": draw(gens.warmups())}
    warm = draw(gens.warmups())
    if draw(st.integers(0, 5)) == 0:
        # a segregated sequence: charge blocks with the neutrals split between start, middle and end
        n = draw(st.integers(5, 40 if warm else 70))
        P_ = draw(st.integers(0, n)); M_ = draw(st.integers(0, n - P_)); Z_ = n - P_ - M_
        s_ = draw(st.integers(0, Z_)); m_ = draw(st.integers(0, Z_ - s_))
        pat = "0" * s_ + (("+" * P_ + "0" * m_ + "-" * M_) if draw(st.booleans()) else ("-" * M_ + "0" * m_ + "+" * P_)) + "0" * (Z_ - s_ - m_)
        return {"seq": draw(gens.spelled(pat)), "warm": warm}
    return {"seq": draw(gens.sequences(max_len=40 if warm else max_len)), "warm": warm}


def check_neighbours(ctx, case):
    """Neighbouring compositions of one length > 100, analysed one after another in the same process."""
    if "seq" in case:
        return check_seq(ctx, case)
    for s in case["seqs"]:
        check_seq(ctx, {"seq": s, "neighbour_of": case["seqs"][0]})


@st.composite
def neighbour_case(draw):
    comps = draw(gens.neighbour_compositions())
    return {"comps": comps, "seqs": [draw(gens.by_composition(*c)) for c in comps]}


def parts(tier):
    return [
        Part("maximisers", "enum", check=check_maximiser, cases=maximiser_cases, exhaustive=True,
             shards={"quick": 8, "thorough": 16}),
        Part("enum-patterns", "enum", check=check_seq, cases=pattern_cases, exhaustive=True,
             shards={"quick": 16, "thorough": 16}),
        Part("enum-few-charges", "enum", check=check_seq, cases=few_charge_cases, exhaustive=False,
             shards={"quick": 16, "thorough": 16}),
        Part("hyp-sequences", "hyp", check=check_seq,
             strategy=lambda t: hyp_case(100 if t == "quick" else 300),
             examples={"quick": 4800, "thorough": 32000}, shards={"quick": 16, "thorough": 16}),
        Part("hyp-long-neighbours", "hyp", check=check_neighbours, strategy=lambda t: neighbour_case(), shrink=False,
             examples={"quick": 96, "thorough": 1600}, shards={"quick": 16, "thorough": 16}),
    ]
