"""C14 — sequence files parse to exactly their residues."""
import os
import tempfile

from hypothesis import strategies as st

from .. import fuzz, gens, ref, util
from ..core import Part
from .c13 import panel, same

PROPERTY = "C14"
RULE = ("hyp layout builder: residues (1..300 quick / 600 thorough) cut into lines of random lengths; optional first header line '>'+printable "
        "text; optional spaces every 10 residues or at random; optional leading/trailing position numbers; blank lines (empty or spaces) anywhere "
        "after the header position; line ends LF or CRLF; with/without trailing newline; optional final '*' on the last line or its own line; "
        "leading/trailing spaces. Corruptions of such a file that must be rejected: a second header line, a '*' before the end, a doubled final "
        "'*', one clearly-foreign character (lower-case letter, BJOUXZ, punctuation other than '*', tab, '>') strictly between two residues of a "
        "line. enum: each foreign ASCII character at every interior position of a fixed two-line file. thorough adds an atheris campaign over raw "
        "file bytes with a three-way reference classifier {well-formed => exact residues, must-reject, unspecified => no assertion}. Oracle: "
        "parseSeqFile(path) == concatenated residues; corrupted => exception; SequenceParameters(sequenceFile=path) and SequencePermutants "
        "hold exactly those residues and answer a 12-analysis panel like SequenceParameters(residues). Non-trivial: >=2 sequence lines and at "
        "least one of {header, numbering, spacing, '*'}, or any corruption; distinct by file content. ASCII control characters (NUL, BEL, VT, FF, ESC, FS-US, DEL) strictly inside a sequence line count as 'any other character', inside the header they are ignored, at the edge of a line they are unspecified; first and second header lines may be indented.")
ASSUMPTIONS = ["unspecified and therefore not asserted: undecodable bytes, non-ASCII decimal digits and non-ASCII whitespace, a first header after "
               "sequence lines, tabs or other control characters at the edge of a line, files without any residue; other non-ASCII characters "
               "(letters, symbols, superscript or circled 'digits') in a sequence line are foreign characters and must be rejected",
               "files are written as ASCII/UTF-8 text and read by the library with its default open()"]
TECHNIQUE = "Hypothesis grammar-based generation of file layouts and single-point corruptions (round-trip oracle: build file from residues, parse, compare) + atheris coverage-guided fuzzing of raw bytes against a reference classifier in the thorough tier"
LEVEL_TEXT = "Exploration of file layouts and their single corruptions by construction; coverage-guided raw-byte fuzzing with a reference parser in the thorough tier."
LEVEL_NOTE = "Reference grammar is the statement's; inputs the statement does not decide are classified 'unspecified' and never asserted."

_tmpdir = None


def tmpfile():
    global _tmpdir
    if _tmpdir is None or not os.path.isdir(_tmpdir):
        base = "/dev/shm" if os.path.isdir("/dev/shm") and os.access("/dev/shm", os.W_OK) else None
        _tmpdir = tempfile.mkdtemp(prefix="vlc-c14-%d-" % os.getpid(), dir=base)
        import atexit
        import shutil
        atexit.register(shutil.rmtree, _tmpdir, True)
    return os.path.join(_tmpdir, "seq.fasta")


def write(data):
    p = tmpfile()
    with open(p, "wb") as f:
        f.write(data)
    return p


def classify_file(data):
    """Reference classifier: ('ok', residues) | ('reject', why) | ('unspecified', why)."""
    try:
        text = data.decode("ascii")
    except UnicodeDecodeError:
        # well-formed UTF-8 with non-ASCII characters: letters, symbols and non-decimal "digits" (superscripts, circled numbers) in a
        # sequence line are "any other character"; decimal digits of other scripts and non-ASCII whitespace are left unspecified
        try:
            text = data.decode("utf-8")
        except UnicodeDecodeError:
            # bytes that are not UTF-8 (a file saved in a legacy 8-bit encoding): under any decoding a byte >= 0x80 inside a sequence line
            # is a character other than a residue, a space, an ASCII digit or '*'; inside the header line it stays unspecified
            lines = data.replace(b"\r\n", b"\n").replace(b"\r", b"\n").split(b"\n")
            seen_header = False
            for ln in lines:
                st_ = ln.strip(b" ")
                if st_.startswith(b">") and not seen_header:
                    seen_header = True
                    continue
                if any(b >= 0x80 for b in st_) and not any(b < 32 or b == 127 for b in st_):
                    try:
                        st_.decode("utf-8")
                    except UnicodeDecodeError:
                        if all((b >= 0x80) or chr(b) in ref.AA + " 0123456789*" for b in st_) and not st_.startswith(b">"):
                            return ("reject", "foreign-char")
            return ("unspecified", "undecodable")
        for ch in text:
            if ord(ch) > 127 and (ch.isdecimal() or ch.isspace() or ch in "\x85\u2028\u2029" or not ch.isprintable()):
                return ("unspecified", "non-ascii-digit-or-space")
    text = text.replace("\r\n", "\n").replace("\r", "\n")
    header = False
    seen_seq = False
    out = []
    verdict = None
    for line in text.split("\n"):
        core_line = line.strip(" ")
        if core_line == "":
            continue
        ctrl = [i for i, ch in enumerate(core_line) if (ord(ch) < 32 and ch != "\t") or ord(ch) == 127]
        # (a header line runs to the line terminator \n, \r\n or \r; whatever else it contains is ignored, control characters included)
        if ctrl and core_line[0] != ">":
            # an ASCII control character is "any other character" when it stands strictly inside a sequence line (a residue before it and
            # a residue after it on the same line); at the edge of a line (where blank-like characters are trimmed) it stays unspecified
            if all(any(c in ref.AA for c in core_line[:i]) and any(c in ref.AA for c in core_line[i + 1:]) for i in ctrl) \
                    and not any(c == "\t" for c in core_line):
                verdict = verdict or ("reject", "foreign-char")
                seen_seq = True
                continue
            return ("unspecified", "control-char")
        if core_line[0] != ">" and core_line != core_line.strip():       # a tab at the edge of a sequence line
            return ("unspecified", "edge-tab")
        if core_line.strip() == "":
            return ("unspecified", "edge-tab")
        if core_line[0] == "\t" :
            return ("unspecified", "edge-tab")
        if core_line[0] == ">":
            if header:
                verdict = verdict or ("reject", "second-header")
                continue
            if seen_seq:
                return ("unspecified", "header-after-sequence")
            header = True
            continue
        seen_seq = True
        for ch in core_line:
            if ch in ref.AA or ch == "*":
                out.append(ch)
            elif ch == " " or (ch in "0123456789"):
                continue
            else:
                verdict = verdict or ("reject", "foreign-char")
    if verdict:
        return verdict
    s = "".join(out)
    n = s.count("*")
    if n > 1:
        return ("reject", "repeated-star")
    if n == 1:
        if s.endswith("*"):
            s = s[:-1]
        else:
            return ("reject", "non-final-star")
    if not s:
        return ("unspecified", "no-residues")
    return ("ok", s)


def check_bytes(ctx, data, case, expect=None):
    """expect: ('ok', residues) or ('reject', why) from the generator (cross-checked with the reference classifier)."""
    lc = util.env.lc()
    from localcider.backend.seqfileparser import SequenceFileParser
    verdict = classify_file(data)
    if expect is not None and verdict[0] != expect[0]:
        raise util.env.HarnessError("generator and reference classifier disagree on %r: %r vs %r" % (data, expect, verdict))
    if expect is not None and expect[0] == "ok" and verdict[1] != expect[1]:
        raise util.env.HarnessError("reference classifier parses %r to %r, generator built it from %r" % (data, verdict[1], expect[1]))
    text = data.decode("utf-8", errors="replace")
    nlines = sum(1 for l in text.replace("\r", "\n").split("\n") if l.strip() and not l.strip().startswith(">"))
    feats = [f for f, c in (("header", ">" in text), ("digits", any(ch.isdigit() for ch in text)), ("spacing", " " in text), ("star", "*" in text)) if c]
    if verdict[0] == "unspecified":
        ctx.count(case, nontrivial=False, classes=["unspecified:" + verdict[1]])
        return
    ctx.count(case, nontrivial=(verdict[0] == "reject" or (nlines >= 2 and bool(feats))),
              classes=[verdict[0] + (":" + verdict[1] if verdict[0] == "reject" else "")] + ["feat:" + f for f in feats] + (["crlf"] if "\r\n" in text else []))
    path = write(data)
    ok, res = util.exc_name(SequenceFileParser().parseSeqFile, path)
    if verdict[0] == "reject":
        ctx.check(not ok, "corrupt-accepted:" + verdict[1], "file with %s parsed to %r instead of being rejected" % (verdict[1], res if ok else None), case)
        ok2, res2 = util.exc_name(lambda: util.env.SP()(sequenceFile=path))
        ctx.check(not ok2, "corrupt-accepted-ctor:" + verdict[1], "SequenceParameters(sequenceFile=...) accepted a file with %s" % verdict[1], case)
        return
    want = verdict[1]
    ctx.check(ok, "wellformed-rejected", "well-formed file rejected (%s); residues %r" % (res, want), case)
    ctx.check(res == want, "residues", "parsed %r, file contains %r" % (res, want), case)
    o = util.env.SP()(sequenceFile=path)
    ctx.check(o.get_sequence() == want and len(o) == len(want), "ctor-sequence", "SequenceParameters(sequenceFile=...) holds %r, file contains %r" % (o.get_sequence(), want), case)
    if len(want) <= 120:
        full = len(want) <= 12
        pa, pb = panel(o, full), panel(util.env.SP()(want), full)
        for k in pa:
            ctx.check(same(pa[k], pb[k]), "panel:" + k, "%s differs between the file-built and the string-built object: %r vs %r" % (k, pa[k], pb[k]), case)
    if case.get("alias", False) and any(r in want for r in ref.STY):
        # state set on one file-built object must not show on another object built from the same file
        sites = [i + 1 for i, r in enumerate(want) if r in ref.STY][:3]
        o.set_phosphosites(sites)
        o.set_HTMLColorResiduePalette({a: "navy" for a in ref.AA})
        o2 = util.env.SP()(sequenceFile=path)
        fresh = util.env.SP()(want)
        ctx.check(list(o2.get_phosphosites()) == [], "file-objects-aliased", "a second object built from the same file starts with phosphosites %r" % (o2.get_phosphosites(),), case)
        ctx.check(o2.get_HTMLColorString() == fresh.get_HTMLColorString(), "file-objects-aliased", "a second object built from the same file renders with another object's palette", case)
        ctx.check(o2.get_phosphosequence() == want, "file-objects-aliased", "a second object built from the same file has phosphosequence %r" % (o2.get_phosphosequence(),), case)
    if case.get("permutants", False):
        from localcider.sequencePermutants import SequencePermutants
        p = SequencePermutants(sequenceFile=path)
        ctx.check(p.SeqObj.seq == want, "permutants-sequence", "SequencePermutants(sequenceFile=...) holds %r, file contains %r" % (p.SeqObj.seq, want), case)


def check(ctx, case):
    data = bytes.fromhex(case["hex"])
    exp = case.get("expect")
    check_bytes(ctx, data, case, tuple(exp) if exp else None)


FOREIGN = "abcdefghijklmnopqrstuvwxyzBJOUXZ!\"#$%&'()+,-./:;<=>?@[\\]^_`{|}~\t" + "\x00\x07\x0b\x0c\x1b\x1c\x1d\x1e\x1f\x7f"
HEADER_CHARS = [chr(i) for i in range(32, 127)] + ["\t", "\x0b", "\x0c", "\x1c", "\x1d", "\x1e", "\x7f", "M", "K", "E", " "]


@st.composite
def layouts(draw, max_len):
    seq = draw(gens.sequences(max_len=max_len))
    eol = draw(st.sampled_from(["\n", "\n", "\r\n"]))
    lines = []
    has_header = draw(st.booleans())
    if has_header:
        lines.append(">" + draw(st.lists(st.sampled_from(HEADER_CHARS), max_size=30).map("".join)))
    # cut into chunks
    chunks = []
    i = 0
    style = draw(st.sampled_from(["fixed60", "fixed10", "random", "single"]))
    while i < len(seq):
        n = {"fixed60": 60, "fixed10": 10, "single": len(seq)}.get(style) or draw(st.integers(1, 40))
        chunks.append(seq[i:i + n])
        i += n
    spacing = draw(st.sampled_from(["none", "ten", "random"]))
    numbering = draw(st.sampled_from(["none", "lead", "trail", "both"]))
    star = draw(st.sampled_from(["none", "none", "same", "own"]))
    pos = 1
    seq_line_idx = []
    for ci, ch in enumerate(chunks):
        body = ch
        if spacing == "ten":
            body = " ".join(ch[j:j + 10] for j in range(0, len(ch), 10))
        elif spacing == "random":
            body = "".join(c + (" " * draw(st.integers(1, 2)) if draw(st.integers(0, 5)) == 0 else "") for c in ch)
        if star == "same" and ci == len(chunks) - 1:
            body = body + draw(st.sampled_from(["*", " *"]))
        if numbering in ("lead", "both"):
            body = "%d %s" % (pos, body) if draw(st.booleans()) else "%6d %s" % (pos, body)
        if numbering in ("trail", "both"):
            body = "%s %d" % (body, pos + len(ch) - 1)
        pos += len(ch)
        body = " " * draw(st.integers(0, 3)) + body + " " * draw(st.integers(0, 3))
        while draw(st.integers(0, 6)) == 0:
            lines.append(" " * draw(st.integers(0, 4)))
        seq_line_idx.append(len(lines))
        lines.append(body)
    if star == "own":
        lines.append(draw(st.sampled_from(["*", " * ", "*  "])))
    while draw(st.integers(0, 4)) == 0:
        lines.append(" " * draw(st.integers(0, 3)))
    trailing = draw(st.booleans())
    return dict(seq=seq, lines=lines, eol=eol, trailing=trailing, has_header=has_header, seq_lines=seq_line_idx, star=star)


def render(lines, eol, trailing):
    return (eol.join(lines) + (eol if trailing else "")).encode("ascii")


@st.composite
def hyp_case(draw, max_len):
    L = draw(layouts(max_len))
    lines = list(L["lines"])
    kind = draw(st.sampled_from(["ok", "ok", "ok", "second-header", "star-before-end", "double-star", "foreign"]))
    expect = ["ok", L["seq"]]
    if kind == "second-header" and L["has_header"]:
        at = draw(st.integers(1, len(lines)))
        # the second header may be indented like any other line (and so may the first)
        lines.insert(at, " " * draw(st.sampled_from([0, 0, 1, 2, 4])) + ">" + draw(st.lists(st.sampled_from(HEADER_CHARS), max_size=10).map("".join)))
        if draw(st.integers(0, 3)) == 0:
            lines[0] = " " * draw(st.integers(1, 3)) + lines[0]
        expect = ["reject", "second-header"]
    elif kind == "star-before-end" and len(L["seq"]) >= 2:
        # put a '*' strictly before the last residue
        li = draw(st.sampled_from(L["seq_lines"]))
        line = lines[li]
        respos = [i for i, c in enumerate(line) if c in ref.AA]
        last_line = li == L["seq_lines"][-1]
        cand = respos[:-1] if last_line else respos
        if cand:
            p = draw(st.sampled_from(cand))
            lines[li] = line[:p] + "*" + line[p:]
            expect = ["reject", "repeated-star" if L["star"] != "none" else "non-final-star"]
    elif kind == "double-star":
        if L["star"] == "none":
            lines.append("**")
        else:
            lines.append("*")
        expect = ["reject", "repeated-star"]
    elif kind == "foreign":
        li = draw(st.sampled_from(L["seq_lines"]))
        line = lines[li]
        respos = [i for i, c in enumerate(line) if c in ref.AA]
        if len(respos) >= 2:
            p = draw(st.sampled_from(respos[1:]))
            lines[li] = line[:p] + draw(st.sampled_from(FOREIGN)) + line[p:]
            expect = ["reject", "foreign-char"]
    if expect[0] == "ok" and L["has_header"] and draw(st.integers(0, 5)) == 0:
        lines[0] = " " * draw(st.integers(1, 3)) + lines[0]
    data = render(lines, L["eol"], L["trailing"])
    return {"hex": data.hex(), "expect": expect, "text": data.decode("ascii"), "permutants": draw(st.integers(0, 7)) == 0, "alias": draw(st.integers(0, 3)) == 0}


def enum_cases(tier, seed):
    for base in ([">sp|P12345| test protein 1", "MKVLA GSEDK 10", "RRPYT*"], ["", "MKVLA GSEDK 10", "RRPYT*"]):
      for li in (1, 2):
        line = base[li]
        respos = [i for i, c in enumerate(line) if c in ref.AA]
        for p in respos[1:]:
            for ch in FOREIGN:
                lines = list(base)
                lines[li] = line[:p] + ch + line[p:]
                yield {"hex": render(lines, "\n", True).hex(), "expect": ["reject", "foreign-char"]}
    base = [">sp|P12345| test protein 1", "MKVLA GSEDK 10", "RRPYT*"]
    yield {"hex": render(base, "\n", True).hex(), "expect": ["ok", "MKVLAGSEDKRRPYT"]}
    yield {"hex": render(base, "\r\n", False).hex(), "expect": ["ok", "MKVLAGSEDKRRPYT"]}
    for ch in "²³¹①⑳½éÉßµΩ中":
        for base in ([">h", "MKVLA GSEDK", "RRPYT"], ["MKVLA GSEDK", "RRPYT"]):
            # the character as a token of its own, next to a position number, and alone on a line
            for variant in (base[:-1] + [base[-1][:2] + " " + ch + " " + base[-1][2:]], base[:-1] + ["10 " + ch + " " + base[-1]],
                            base[:-1] + ["1" + ch + " " + base[-1]], base[:-1] + [ch, base[-1]], base + [ch]):
                yield {"hex": ("\n".join(variant) + "\n").encode("utf-8").hex(), "expect": ["reject", "foreign-char"]}
            for li in (len(base) - 2, len(base) - 1):
                line = base[li]
                for p in (1, 3, len(line) - 1):
                    lines = list(base)
                    lines[li] = line[:p] + ch + line[p:]
                    yield {"hex": ("\n".join(lines) + "\n").encode("utf-8").hex(), "expect": ["reject", "foreign-char"]}
    for byte in (0xE9, 0xB5, 0xB7, 0xA0, 0x80, 0xFF):
        for base in ([b">h", b"MKVLA GSEDK", b"RRPYT"], [b"MKVLA GSEDK", b"RRPYT"]):
            line = base[-1]
            for p in (1, 3):
                lines = base[:-1] + [line[:p] + bytes([byte]) + line[p:]]
                yield {"hex": (b"\n".join(lines) + b"\n").hex(), "expect": ["reject", "foreign-char"]}
    for ind1 in ("", " ", "   "):
        for ind2 in ("", " ", "  ", "    "):
            for second_at in (1, 2, 3):
                lines = [ind1 + ">first record", "MKVLA GSEDK", "RRPYT"]
                lines.insert(second_at, ind2 + ">second record")
                yield {"hex": render(lines, "\n", True).hex(), "expect": ["reject", "second-header"]}
            yield {"hex": render([ind1 + ">first record", "MKVLA GSEDK", ind2 + "RRPYT"], "\n", True).hex(), "expect": ["ok", "MKVLAGSEDKRRPYT"]}
    for ch in "\x00\x07\x0b\x0c\x1b\x1c\x1d\x1e\x1f\x7f":
        # inside the header line a control character is part of the header (ignored), whatever follows it
        for tail in ("MAP KINASE 1", "", " GSEDK", "10"):
            yield {"hex": render([">sp|P28482|MK01_HUMAN" + ch + tail, "MKVLA GSEDK", "RRPYT"], "\n", True).hex(), "expect": ["ok", "MKVLAGSEDKRRPYT"]}
    for a in ref.AA:
        yield {"hex": a.encode().hex(), "expect": ["ok", a]}
        yield {"hex": (">h\n" + a + "*\n").encode().hex(), "expect": ["ok", a]}


def fuzz_target(data):
    from ..core import Ctx
    ctx = Ctx(PROPERTY, "atheris-files", "thorough", 0)
    check_bytes(ctx, data, {"hex": data.hex()})
    return ctx


def run_fuzz(ctx, tier, seed, idx, nshards):
    corpus = [b">x\nMKV LAG 10\nEDK*\n", b"MKVLA\r\nGSEDK\r\n", b"1 MKV\n\n  5 LA*", b">a\nMK\n>b\nVL\n", b"MK*VL\n"] if idx % 2 else []
    fuzz.campaign(ctx, "c14", seed, idx, runs=45000 if tier == "thorough" else 3000, corpus=corpus, decode=None, max_len=64,
                  extra_args=["-only_ascii=1"] if idx % 4 < 3 else [])


def parts(tier):
    ps = [
        Part("enum-foreign-chars", "enum", check=check, cases=enum_cases, exhaustive=True, shards={"quick": 4, "thorough": 8}),
        Part("hyp-layouts", "hyp", check=check, strategy=lambda t: hyp_case(300 if t == "quick" else 600),
             examples={"quick": 4800, "thorough": 48000}, shards={"quick": 16, "thorough": 16}),
    ]
    if tier == "thorough" and fuzz.available():
        ps.append(Part("atheris-files", "custom", run=run_fuzz, check=check, shards={"quick": 1, "thorough": 16}))
    return ps
