"""C12 — reduced alphabets implement the documented residue partitions."""
from hypothesis import strategies as st

from .. import gens, ref, util
from ..core import Part

PROPERTY = "C12"
SIZES = sorted(ref.PARTITIONS)
RULE = ("enum: 12 predefined sizes x 20 residues (each residue alone and inside a seed-chosen sequence), every integer size 0..25 and a few "
        "beyond (-1, 21, 30, 100); hyp: pairs of sequences (to 60/200 residues) x size for the length / concatenation-homomorphism / idempotence "
        "laws; user alphabets: total maps 20->20 (accepted, applied letter by letter, alphabet = set of images), one key removed, one value "
        "replaced by a non-amino-acid (lower case, two letters, digit, empty), non-dict non-empty containers (all rejected). Oracle: the "
        "harness's transcription of the documented partitions - the image of a residue is a member of its documented group, equal for all "
        "members, distinct across groups; returned alphabet as a set equals the set of representatives. 10% of the user-alphabet cases use sequences of 201-420 residues; user dictionaries may carry extra non-amino-acid keys; every returned alphabet list is modified by the harness after copying. Half of the random cases run on an object that has already made other calls (in particular a reduction with a different total user alphabet). Non-trivial: the sequence contains >=2 "
        "distinct residues that the alphabet merges (enum: every (size,residue) fact); distinct by (size/alphabet, sequences).")
ASSUMPTIONS = ["passing the signature's own default userAlphabet={} explicitly is the same request as omitting it (half of the predefined-size requests spell it out)",
               "PARTITIONS in vlc/ref.py transcribe the documented groups for sizes 2,3,4,5,6,8,10,11,12,15,18,20",
               "sizes are passed as integers (strings that parse as integers are not asserted either way)",
               "extra keys beyond the 20 amino acids in a user dictionary can never apply to a valid sequence: they neither rescue a dictionary "
               "that lacks an amino acid nor change the reduction or the returned alphabet",
               "the harness modifies every returned alphabet list after copying it (the caller owns a returned value)"]
TECHNIQUE = "exhaustive enumeration (sizes x residues, all integer sizes) + Hypothesis property testing of algebraic laws (homomorphism, idempotence) and accept/reject of generated user alphabets against a model"
LEVEL_TEXT = "Exploration: the finite table (12 sizes x 20 residues) and the size domain 0..25 are covered completely; laws and user alphabets are sampled."
LEVEL_NOTE = "Trusts the transcribed partitions."


def reduce_(seq, size=20, user=None, case=None):
    o = util.spw(seq, case or {})
    if user is not None:
        out = o.get_reduced_alphabet_sequence(userAlphabet=user)
    else:
        # a predefined alphabet, requested in one of the equivalent spellings (the signature's default {} spelled out = no user alphabet)
        k = (len(seq) + size) % 4
        if k == 1:
            out = o.get_reduced_alphabet_sequence(size, {})
        elif k == 2:
            out = o.get_reduced_alphabet_sequence(alphabetSize=size, userAlphabet=dict())
        else:
            out = o.get_reduced_alphabet_sequence(size)
    if isinstance(out, tuple) and len(out) == 2 and isinstance(out[1], list):
        # the caller owns what it was handed: scribble on the returned list after taking a copy (a later call must not notice)
        res = (out[0], list(out[1]))
        del out[1][::2]
        out[1].append("?")
        return res
    return out


def check_table(ctx, case):
    size = case["size"]
    ctx.count(case, nontrivial=True, classes=["size:%d" % size])
    reps = {}
    for res in ref.AA:
        out = reduce_(res, size)
        ctx.check(isinstance(out, tuple) and len(out) == 2, "shape", "returned %r" % (out,), case)
        img, alphabet = out
        g = ref.group_of(size, res)
        ctx.check(isinstance(img, str) and len(img) == 1 and img in g, "representative-in-group",
                  "size %d: %s maps to %r which is not a member of its documented group (%s)" % (size, res, img, g), case)
        if g in reps:
            ctx.check(reps[g] == img, "one-representative", "size %d: group (%s) has two images %r and %r" % (size, g, reps[g], img), case)
        reps[g] = img
        ctx.check(len(alphabet) == size and set(alphabet) <= set(ref.AA), "alphabet-size", "size %d: returned alphabet %r" % (size, alphabet), case)
    ctx.check(len(set(reps.values())) == size, "group-count", "size %d: %d distinct images" % (size, len(set(reps.values()))), case)
    img, alphabet = reduce_(ref.AA, size)
    ctx.check(set(alphabet) == set(reps.values()) and len(alphabet) == len(set(alphabet)), "alphabet=representatives",
              "size %d: returned alphabet %r, representatives %r" % (size, sorted(alphabet), sorted(reps.values())), case)
    ctx.check(img == "".join(reps[ref.group_of(size, r)] for r in ref.AA), "letter-by-letter", "size %d: reduce(all 20) = %r" % (size, img), case)
    # the same facts with the residue embedded in a sequence
    seq = case["seq"]
    img2, _ = reduce_(seq, size)
    ctx.check(img2 == "".join(reps[ref.group_of(size, r)] for r in seq), "letter-by-letter", "size %d: reduce(%s) = %r" % (size, seq, img2), case)


def check_size(ctx, case):
    size = case["size"]
    ok_expected = size in ref.PARTITIONS
    ctx.count(case, nontrivial=True, classes=["size-valid" if ok_expected else "size-invalid"])
    ok, res = util.exc_name(reduce_, "ACDEFGHIKLMNPQRSTVWY", size)
    if ok_expected:
        ctx.check(ok, "size-rejected", "documented size %d rejected (%s)" % (size, res), case)
    else:
        ctx.check(not ok, "size-accepted", "unsupported alphabet size %d accepted: %r" % (size, res), case)


def check_laws(ctx, case):
    a, b, size = case["a"], case["b"], case["size"]
    merged = len(set(a)) - len(set(ref.group_of(size, r) for r in a))
    ctx.count(case, nontrivial=merged >= 1, classes=["size:%d" % size])
    ra, al = reduce_(a, size, case=case)
    rb, _ = reduce_(b, size)
    rab, _ = reduce_(a + b, size)
    ctx.check(len(ra) == len(a), "length", "len(reduce(a))=%d, len(a)=%d" % (len(ra), len(a)), case)
    ctx.check(rab == ra + rb, "homomorphism", "reduce(a+b)=%r but reduce(a)+reduce(b)=%r" % (rab, ra + rb), case)
    rra, _ = reduce_(ra, size)
    ctx.check(rra == ra, "idempotent", "reduce(reduce(a))=%r differs from reduce(a)=%r" % (rra, ra), case)
    ctx.check(set(ra) <= set(al), "image-in-alphabet", "reduced sequence uses letters outside the returned alphabet", case)
    for x, y in zip(a, ra):
        ctx.check(y in ref.group_of(size, x), "representative-in-group", "size %d: %s -> %s not in group" % (size, x, y), case)


def check_user(ctx, case):
    seq, user, valid = case["seq"], case["user"], case["valid"]
    ctx.count(case, nontrivial=True, classes=["user-valid" if valid else "user-invalid:" + case.get("why", "?")])
    if isinstance(user, dict):
        arg = dict(user)
    else:
        arg = user
    ok, res = util.exc_name(reduce_, seq, 20, arg, case)
    if valid:
        ctx.check(ok, "user-rejected", "total user alphabet rejected (%s)" % (res,), case)
        img, alphabet = res
        ctx.check(img == "".join(user[r] for r in seq), "user-letter-by-letter", "user alphabet applied as %r" % (img,), case)
        ctx.check(set(alphabet) == set(user[a] for a in ref.AA) and len(set(alphabet)) == len(alphabet), "user-alphabet",
                  "returned alphabet %r, images %r" % (alphabet, sorted(set(user[a] for a in ref.AA))), case)
    else:
        ctx.check(not ok, "user-accepted", "invalid user alphabet (%s) accepted: %r" % (case.get("why"), res if ok else None), case)
        # asking again does not make it valid (same object, same request)
        o = util.spw(seq, case)
        first = util.exc_name(o.get_reduced_alphabet_sequence, 20, dict(arg) if isinstance(arg, dict) else arg)
        again = util.exc_name(o.get_reduced_alphabet_sequence, 20, dict(arg) if isinstance(arg, dict) else arg)
        ctx.check(not first[0] and not again[0], "user-accepted-on-retry", "invalid user alphabet (%s) accepted when the same request was repeated: %r" % (case.get("why"), again[1] if again[0] else first[1]), case)


def check(ctx, case):
    return {"table": check_table, "size": check_size, "laws": check_laws, "user": check_user}[case["kind"]](ctx, case)


def enum_cases(tier, seed):
    import random
    rnd = random.Random(seed)
    for size in SIZES:
        for _ in range(2 if tier == "quick" else 10):
            yield {"kind": "table", "size": size, "seq": "".join(rnd.choice(ref.AA) for _ in range(rnd.randint(1, 60)))}
    for size in list(range(0, 26)) + [-1, -20, 30, 100, 200]:
        yield {"kind": "size", "size": size}


@st.composite
def hyp_case(draw, max_len):
    kind = draw(st.sampled_from(["laws", "laws", "user", "user"]))
    if kind == "laws":
        return {"kind": "laws", "a": draw(gens.sequences(max_len=max_len)), "b": draw(gens.sequences(max_len=max_len)),
                "size": draw(st.sampled_from(SIZES)), "warm": draw(gens.warmups())}
    seq = draw(gens.sequences(max_len=max_len)) if draw(st.integers(0, 9)) else "".join(draw(st.lists(st.sampled_from(list(ref.AA)), min_size=201, max_size=420)))
    nimg = draw(st.integers(1, 20))
    images = draw(st.lists(st.sampled_from(list(ref.AA)), min_size=nimg, max_size=nimg, unique=True))
    user = {a: draw(st.sampled_from(images)) for a in ref.AA}
    if draw(st.integers(0, 5)) == 0:
        # the representative letters of a predefined alphabet, but with the residues grouped differently (e.g. an HP model written with L/E)
        reps = [g[0] for g in ref.PARTITIONS[draw(st.sampled_from([2, 3, 4, 5, 6, 8, 10]))]]
        code_reps = {2: "LE", 3: "LFE", 4: "LAFE", 5: "LAFEK", 6: "LAPFEK", 8: "LASPFEKH", 10: "LCAGSPFEKH"}
        reps = list(code_reps[len(reps)])
        user = {a: draw(st.sampled_from(reps)) for a in ref.AA}
        for i, rletter in enumerate(reps):
            user[draw(st.sampled_from(list(ref.AA)))] = rletter
    how = draw(st.sampled_from(["valid", "valid", "valid-extra", "missing-key", "missing-key-extra", "bad-value", "non-dict"]))
    if how in ("valid-extra", "missing-key-extra"):
        for k in draw(st.lists(st.sampled_from(["B", "Z", "X", "U", "O", "a", "k", "w"]), min_size=1, max_size=3, unique=True)):
            user[k] = draw(st.sampled_from(list(ref.AA)))
        how = how.replace("-extra", "")
    warm = draw(gens.warmups()) if len(seq) <= 60 else []
    if draw(st.booleans()):
        # the same object has just reduced with another total user alphabet (and perhaps a predefined one)
        warm = warm + [["get_reduced_alphabet_sequence", [20, draw(gens.user_alphabets())]]]
    if how == "valid":
        return {"kind": "user", "seq": seq, "user": user, "valid": True, "warm": warm}
    if how == "missing-key":
        k = draw(st.sampled_from(list(ref.AA)))
        del user[k]
        return {"kind": "user", "seq": seq, "user": user, "valid": False, "why": "missing-key", "warm": warm}
    if how == "bad-value":
        k = draw(st.sampled_from(list(ref.AA)))
        user[k] = draw(st.sampled_from(["a", "k", "AK", "1", "", "X", "B", "*", " ", "DE", "ST", "IL", "KDE", "AI", None, 7]))
        return {"kind": "user", "seq": seq, "user": user, "valid": False, "why": "bad-value", "warm": warm}
    nd = draw(st.sampled_from([list(ref.AA), "ACDEFGHIKLMNPQRSTVWY", [["A", "A"]], ["A"]]))
    return {"kind": "user", "seq": seq, "user": nd, "valid": False, "why": "non-dict"}


def _parts(tier):
    return [
        Part("enum-table-and-sizes", "enum", check=check, cases=enum_cases, exhaustive=True, shards={"quick": 4, "thorough": 16}),
        Part("hyp-laws-user", "hyp", check=check, strategy=lambda t: hyp_case(60 if t == "quick" else 200),
             examples={"quick": 9600, "thorough": 64000}, shards={"quick": 8, "thorough": 16}),
    ]


def parts(tier):
    ps = _parts(tier)
    from .. import fuzz
    if tier == "thorough" and fuzz.available():
        # the same structured cases, generated coverage-guided: libFuzzer bytes drive the Hypothesis strategy (fuzz_one_input)
        ps.append(Part("atheris-guided", "custom", check=[p for p in ps if p.name == "hyp-laws-user"][0].check, shards={"quick": 1, "thorough": 8},
                       run=lambda ctx, t, seed, idx, n: fuzz.hyp_campaign(ctx, "c12", "hyp-laws-user", seed, idx, runs=30000)))
    return ps
