"""C10 — sliding-window profiles report each window's statistic at its centre position."""
import numpy as np
from hypothesis import strategies as st

from .. import gens, ref, util
from ..core import Part

PROPERTY = "C10"
RULE = ("enum: every +/-/0 pattern with N<=7 (quick) / N<=9 (thorough), spelled, x every window 1..N+3 x the four scalar profiles and the "
        "default-group composition; hyp: sequences N=1..60 (some to 200) x w in 1..N+3 (odd and even, w=1, w=N) x profile in {NCPR, FCR, sigma, "
        "hydropathy, composition with default groups, composition with 1-5 user groups in mixed case}. Oracle: row 0 = 1..N; the value of the "
        "window starting at 0-based residue i sits at column i+floor((w-1)/2), floor((w-1)/2) leading and ceil((w-1)/2) trailing zeros; one row "
        "per group; w=N => the single value equals the whole-sequence parameter; get_delta() = mean over w in {5,6} of the mean squared deviation "
        "of the w-profile's window values from the global sigma (0 when w>N); w>N => exception for all five entry points. About 6% of the random cases are long (129-320), highly charged sequences with windows of 128 residues or more. Half of the random cases run after a generated warm-up history of other API calls on the same object; user group lists may repeat a group. Non-trivial: 1<w<N; "
        "distinct by (sequence, w, profile). A quarter of the random cases use a pasted spelling. In the generated parts one clean word in eight is handed to the constructor as SeqObj=Sequence(lower/mixed-case text) instead of as a string (same object expected).")
ASSUMPTIONS = ["window sizes are positive integers (the statement's domain 1<=w<=N and the rejected range w>N)",
               "hydropathy profile uses the 0-1 (Uversky-normalised) Kyte-Doolittle scale, as get_uversky_hydropathy does", "tolerance 1e-9"]
TECHNIQUE = "exhaustive enumeration over short patterns x all windows + Hypothesis property testing; differential oracle = independent reference sliding window, whole-sequence and delta cross-checks"
LEVEL_TEXT = "Exploration: complete for all patterns up to N=7/9 with every window 1..N+3 on all five entry points; random sequences/windows/groups above."
LEVEL_NOTE = "Reference window and tables in vlc/ref.py; tolerance 1e-9."

SCALAR = {"NCPR": "get_linear_NCPR", "FCR": "get_linear_FCR", "sigma": "get_linear_sigma", "hydropathy": "get_linear_hydropathy"}


def ref_profile(kind, seq, w, group=None):
    pat = ref.pattern(seq)
    N = len(seq)
    fn = {"NCPR": lambda: ref.win_ncpr(pat, w), "FCR": lambda: ref.win_fcr(pat, w), "sigma": lambda: ref.win_sigma(pat, w),
          "hydropathy": lambda: ref.win_hydro(seq, w), "group": lambda: ref.win_group(seq, w, group)}[kind]()
    return ref.window_profile(fn, N, w)


def whole(kind, seq, group=None):
    o = util.sp(seq)
    pat = ref.pattern(seq)
    if kind == "NCPR":
        return o.get_NCPR()
    if kind == "FCR":
        return o.get_FCR()
    if kind == "sigma":
        return float(ref.sigma_frac(sum(1 for c in pat if c > 0), sum(1 for c in pat if c < 0), len(pat)))
    if kind == "hydropathy":
        return o.get_uversky_hydropathy()
    return sum(1 for r in seq if r in set(group)) / len(seq)


def check_rows(ctx, case, kind, seq, w, positions, rows, groups):
    N = len(seq)
    positions = np.asarray(positions, dtype=float)
    ctx.check(positions.shape == (N,) and all(positions[i] == i + 1 for i in range(N)), "positions",
              "%s(w=%d): position row is %r, expected 1..%d" % (kind, w, positions.tolist()[:12], N), case)
    rows = np.atleast_2d(np.asarray(rows, dtype=float))
    ctx.check(rows.shape == (len(groups), N), "shape", "%s(w=%d): value rows have shape %r, expected %r" % (kind, w, rows.shape, (len(groups), N)), case)
    for gi, g in enumerate(groups):
        want = ref_profile(kind if g is None else "group", seq, w, g)
        got = rows[gi]
        for col in range(N):
            if not ref.close(got[col], want[col]):
                lead = (w - 1) // 2
                where = "leading flank" if col < lead else "trailing flank" if col >= lead + N - w + 1 else "window %d" % (col - lead)
                ctx.fail("value", "%s(w=%d)%s: column %d (%s) is %r, reference %r" % (kind, w, "" if g is None else " group %s" % g, col + 1, where, float(got[col]), want[col]), case)
        if w == N:
            ctx.check(ref.close(got[(w - 1) // 2], whole(kind if g is None else "group", seq, g)), "whole-sequence",
                      "%s(w=N=%d): single window value %r differs from the whole-sequence parameter %r" % (kind, N, float(got[(w - 1) // 2]), whole(kind if g is None else "group", seq, g)), case)


def check(ctx, case):
    seq, w, kind = case["seq"], case["w"], case["kind"]
    N = len(seq)
    groups = case.get("groups")
    cl = ["kind:" + kind, "w-even" if w % 2 == 0 else "w-odd"]
    for cond, name in ((w == 1, "w=1"), (w == N, "w=N"), (w == N + 1, "w=N+1"), (w > N + 1, "w>N+1")):
        if cond:
            cl.append(name)
    ctx.count(case, nontrivial=(1 < w < N), classes=cl)
    o = util.spw(seq, case)
    if kind in SCALAR:
        call = lambda: getattr(o, SCALAR[kind])(w)
    elif kind == "comp-default":
        call = lambda: o.get_linear_sequence_composition(w)
    else:
        # each group is passed either as a list of letters or as the plain string itself
        call = lambda: o.get_linear_sequence_composition(w, [g if case.get("as_str") else list(g) for g in groups])
    if w > N:
        ok, res = util.exc_name(call)
        ctx.check(not ok, "window-too-long", "%s with window %d on a %d-residue sequence answered instead of raising: %r" % (kind, w, N, np.asarray(res[1] if ok else 0).tolist() if ok else None), case)
        return
    res = call()
    if kind in SCALAR:
        arr = np.asarray(res, dtype=float)
        ctx.check(arr.ndim == 2 and arr.shape[0] == 2, "shape", "%s(w=%d) returned array of shape %r" % (kind, w, arr.shape), case)
        check_rows(ctx, case, kind, seq, w, arr[0], arr[1:], [None])
    else:
        ctx.check(isinstance(res, tuple) and len(res) == 2, "shape", "composition returned %r" % (type(res),), case)
        gl = [g.upper() for g in groups] if kind == "comp-user" else ref.DEFAULT_GROUPS
        check_rows(ctx, case, "group", seq, w, res[0], res[1], gl)
    if kind == "sigma" and w in (5, 6) and case.get("delta", True):
        # delta from the two sigma profiles
        pat = ref.pattern(seq)
        glob = float(ref.sigma_frac(sum(1 for c in pat if c > 0), sum(1 for c in pat if c < 0), N))
        tot = 0.0
        for ww in (5, 6):
            if ww <= N:
                prof = np.asarray(util.sp(seq).get_linear_sigma(ww), dtype=float)[1]
                lead = (ww - 1) // 2
                vals = prof[lead:lead + N - ww + 1]
                tot += float(np.mean((glob - vals) ** 2))
        d = util.sp(seq).get_delta()
        ctx.check(ref.close(d, tot / 2), "delta-from-profiles", "get_delta()=%r but the w=5,6 sigma profiles give %r" % (d, tot / 2), case)


def enum_cases(tier, seed):
    hi = 7 if tier == "quick" else 9
    for p, s in util.spelled_patterns(1, hi, seed):
        for w in range(1, len(s) + 4):
            for kind in ("NCPR", "FCR", "sigma", "hydropathy", "comp-default"):
                yield {"seq": s, "w": w, "kind": kind}


@st.composite
def hyp_case(draw, big):
    if draw(st.integers(0, 31)) == 0:
        n = draw(st.integers(501, 640))
        return {"seq": draw(gens.exact_words("KRDEGSPQAL", n)), "w": draw(st.sampled_from([5, 6])), "kind": "sigma"}
    if draw(st.integers(0, 15)) == 0:
        seq = draw(gens.long_charged(129, 320))
        N = len(seq)
        w = draw(st.one_of(st.integers(min(128, N), N), st.sampled_from([N, N - 1, min(128, N), min(129, N), 200 if N >= 200 else N])))
        kind = draw(st.sampled_from(["NCPR", "FCR", "sigma", "hydropathy", "comp-default"]))
        return {"seq": seq, "w": w, "kind": kind, "delta": False}
    seq = draw(gens.sequences(max_len=200 if draw(st.integers(0, 9)) == 0 and big else 60))
    N = len(seq)
    w = draw(st.one_of(st.integers(1, N + 3), st.sampled_from([1, N, N + 1, max(1, N - 1), 5, 6])))
    kind = draw(st.sampled_from(["NCPR", "FCR", "sigma", "hydropathy", "comp-default", "comp-user", "comp-user"]))
    case = {"seq": seq, "w": w, "kind": kind}
    if kind == "comp-user":
        groups = draw(st.lists(st.lists(st.sampled_from(list(ref.AA + "acdefghiklmnpqrstvwy")), min_size=1, max_size=6).map("".join), min_size=1, max_size=5))
        r1 = draw(st.integers(0, 7))
        if r1 == 0:
            # two overlapping groups followed by their union (the default grouping has the shape acidic, basic, charged)
            a = draw(st.lists(st.sampled_from(list(ref.AA)), min_size=1, max_size=4, unique=True))
            b = draw(st.lists(st.sampled_from(list(ref.AA)), min_size=1, max_size=4, unique=True))
            if draw(st.booleans()):
                b = b + [a[0]]
            union = a + [x for x in b if x not in a]
            groups = draw(st.lists(st.sampled_from(["P", "GS", "W"]), max_size=1)) + ["".join(a), "".join(dict.fromkeys(b)), "".join(union)]
        elif r1 == 1:
            # groups given as strings that happen to spell three-letter residue names
            groups = draw(st.lists(st.sampled_from(gens.THREE_LETTER_NAMES + [n.lower() for n in gens.THREE_LETTER_NAMES] + [n.capitalize() for n in gens.THREE_LETTER_NAMES]), min_size=1, max_size=3))
        if draw(st.integers(0, 3)) == 0:
            # a repeated group (same residues, possibly other case/order) still gets its own row
            g = draw(st.sampled_from(groups))
            g2 = "".join(draw(st.permutations(list(g))))
            groups.insert(draw(st.integers(0, len(groups))), g2.swapcase() if draw(st.booleans()) else g2)
        case["groups"] = groups
        case["as_str"] = draw(st.booleans())
    if len(seq) <= 60:
        case["warm"] = draw(gens.warmups())
    case["paste"] = draw(gens.paste_opt())
    return case


def _parts(tier):
    return [
        Part("enum-patterns-windows", "enum", check=check, cases=enum_cases, exhaustive=True, shards={"quick": 16, "thorough": 16}),
        Part("hyp-profiles", "hyp", check=check, strategy=lambda t: hyp_case(True),
             examples={"quick": 6400, "thorough": 64000}, shards={"quick": 16, "thorough": 16}),
    ]


def parts(tier):
    ps = _parts(tier)
    from .. import fuzz
    if tier == "thorough" and fuzz.available():
        # the same structured cases, generated coverage-guided: libFuzzer bytes drive the Hypothesis strategy (fuzz_one_input)
        ps.append(Part("atheris-guided", "custom", check=[p for p in ps if p.name == "hyp-profiles"][0].check, shards={"quick": 1, "thorough": 8},
                       run=lambda ctx, t, seed, idx, n: fuzz.hyp_campaign(ctx, "c10", "hyp-profiles", seed, idx, runs=30000)))
    return ps
