"""C13 — sequence strings are normalised or rejected, never silently altered."""
from hypothesis import strategies as st

from .. import fuzz, gens, ref, util
from ..core import Part

PROPERTY = "C13"
RULE = ("enum: every one of the 128 ASCII characters plus 40 other code points (NBSP, U+2003, U+2028, U+0085, U+3000, ZWSP, BOM, lower/upper "
        "non-amino letters, dotless i, long s, sharp s, Kelvin sign ...) inserted at every position of 6 short words; hyp: (i) valid word "
        "with random case flips and whitespace injected anywhere, (ii) the same with one foreign character at a random position, (iii) "
        "st.text() in full generality, (iv) non-strings (None, int, float, bytes, list, tuple, dict, bool); thorough adds an atheris/libFuzzer "
        "campaign (bytes -> UTF-8 text -> constructor, oracle inside the target, empty and small valid corpus). Oracle (literal reading of the "
        "statement): norm = upper-cased string without str.isspace() characters; accepted <=> norm is a non-empty word over the 20 letters; on "
        "accept get_sequence()==norm, get_length()==len()==len(norm) and a panel of 12 analyses (14 incl. kappa and Omega when the word has <=12 residues) equals the panel of SequenceParameters(norm); "
        "otherwise an exception and no object. Non-trivial: accepted strings that differ from their normal form, and rejected strings whose "
        "first offending character is not at position 0; distinct by the string.")
ASSUMPTIONS = ["'whitespace' is Python's str.isspace() on the upper-cased string (the only definition available to a Python caller)",
               "subclasses of str are not asserted either way"]
TECHNIQUE = "exhaustive single-character insertion + Hypothesis property testing (+ atheris coverage-guided fuzzing in the thorough tier) against a reference normaliser/classifier; accepted inputs are additionally compared analysis-by-analysis with the normalised word (differential)"
LEVEL_TEXT = "Exploration of the constructor's input space: complete for single foreign-character insertions into short words over ASCII, sampled over arbitrary Unicode text and non-strings; coverage-guided byte fuzzing in the thorough tier."
LEVEL_NOTE = "Oracle mirrors the statement literally; anything the statement does not decide (str subclasses) is not asserted."

PANEL = ["get_FCR", "get_NCPR", "get_kappa", "get_delta", "get_mean_hydropathy", "get_uversky_hydropathy", "get_SCD", "get_phasePlotRegion",
         "get_countPos", "get_countNeg", "get_countNeut", "get_molecular_weight", "get_Omega", "get_fraction_disorder_promoting"]


def normal_form(s):
    return "".join(c for c in s.upper() if not c.isspace())


def acceptable(s):
    n = normal_form(s)
    return len(n) > 0 and all(c in ref.AA for c in n)


EXPENSIVE = ("get_kappa", "get_Omega")


def panel(o, full=True):
    out = {m: getattr(o, m)() for m in PANEL if full or m not in EXPENSIVE}
    out["fractions"] = o.get_amino_acid_fractions()
    return out


def same(a, b):
    if isinstance(a, dict):
        return isinstance(b, dict) and a.keys() == b.keys() and all(same(a[k], b[k]) for k in a)
    try:
        return a == b or ref.close(a, b)
    except Exception:   # noqa
        return False


def check_string(ctx, s, case):
    SPc = util.env.SP()
    if not isinstance(s, str):
        ctx.count(case, nontrivial=True, classes=["non-string"])
        ok, res = util.exc_name(SPc, s)
        ctx.check(not ok, "non-string-accepted", "SequenceParameters(%r) produced an object" % (s,), case)
        return
    want = acceptable(s)
    norm = normal_form(s)
    if want:
        nt = s != norm
        cl = ["accept"] + (["accept-needs-normalising"] if nt else [])
    else:
        bad = [i for i, c in enumerate(s) if not c.isspace() and not all(u in ref.AA for u in c.upper())]
        nt = bool(bad) and bad[0] > 0
        cl = ["reject"] + (["reject-blank"] if not norm else [])
    ctx.count(case, nontrivial=nt, classes=cl)
    ok, res = util.exc_name(SPc, s)
    if not want:
        ctx.check(not ok, "invalid-accepted", "SequenceParameters(%r) was accepted as %r" % (s, res.get_sequence() if ok else None), case)
        return
    ctx.check(ok, "valid-rejected", "SequenceParameters(%r) rejected (%s); normal form %r is a valid sequence" % (s, res, norm), case)
    o = res
    ctx.check(o.get_sequence() == norm, "sequence", "get_sequence()=%r, normal form %r" % (o.get_sequence(), norm), case)
    ctx.check(o.get_length() == len(norm) and len(o) == len(norm), "length", "get_length()=%r len()=%r, len(normal form)=%d" % (o.get_length(), len(o), len(norm)), case)
    if len(norm) <= 120:
        full = len(norm) <= 12
        pa, pb = panel(o, full), panel(SPc(norm), full)
        for k in pa:
            ctx.check(same(pa[k], pb[k]), "panel:" + k, "%s differs between SequenceParameters(%r) and SequenceParameters(%r): %r vs %r" % (k, s, norm, pa[k], pb[k]), case)


def check(ctx, case):
    v = case["s"]
    if isinstance(v, dict) and "__py__" in v:
        v = eval(v["__py__"], {"__builtins__": {}, "float": float, "Ellipsis": Ellipsis, "frozenset": frozenset, "bytearray": bytearray, "type": type,
                                      "UserString": __import__("collections").UserString, "BioSeq": __import__("Bio.Seq", fromlist=["Seq"]).Seq,
                                      "BioMutableSeq": __import__("Bio.Seq", fromlist=["MutableSeq"]).MutableSeq, "memoryview": memoryview, "range": range}, {})    # non-string values for replay
    check_string(ctx, v, case)


EXTRA = [" ", " ", " ", " ", "\u0085", "　", "​", "﻿", " ", " ", " ", "\x1c", "\x1f",
         "ß", "ı", "ſ", "K", "é", "É", "Ω", "µ", "ǰ", "ﬁ", "ŉ", "İ", "k̇", "１", "Ａ", "α", "я", "中", "퟿", "\U0001f600",
         "b", "j", "o", "u", "x", "z"]


def enum_cases(tier, seed):
    words = ["EK", "GSKE", "A", "MDVFMKGLSKAKEGVVAAAE", "PPPP", "kEeR"]
    chars = [chr(i) for i in range(128)] + EXTRA
    for w in words[: (4 if tier == "quick" else 6)]:
        for c in chars:
            for pos in range(len(w) + 1):
                yield {"s": w[:pos] + c + w[pos:]}
    for c in chars:
        yield {"s": c}
        yield {"s": c * 3}
    yield {"s": ""}
    # a valid word wrapped in matching delimiters (quoted / bracketed as it might arrive from a CSV field or a shell argument)
    for w in words[:3]:
        for c in [chr(i) for i in range(33, 127) if not chr(i).isalnum()] + ["“", "«"]:
            close = {"(": ")", "[": "]", "{": "}", "<": ">", "“": "”", "«": "»"}.get(c, c)
            for pad in ("", " "):
                yield {"s": pad + c + w + close + pad}
    for name in ["ALASER", "METLYSVAL", "GLYSERGLYSER", "HISHISHISHISHISHIS", "ASPARGTHRTRP", "ALA", "SERSER"]:
        yield {"s": name}
        yield {"s": name.lower()}


WS = " \t\n\r\x0b\x0c   \u0085　\x1c\x1d\x1e\x1f"
FOREIGN = st.one_of(st.sampled_from(list("BJOUXZbjouxz*-_.,;:!?0123456789@#$%&()[]{}<>/\\|+=~`'\"\x00\x01\x07\x08\x1b\x7f")),
                    st.characters(blacklist_categories=("Zs", "Zl", "Zp", "Cs"), blacklist_characters=WS + ref.AA + ref.AA.lower() + "ıſß"))


@st.composite
def hyp_case(draw, max_len):
    kind = draw(st.sampled_from(["decorated", "decorated", "foreign", "foreign", "text", "nonstring", "long"]))
    if kind == "long":
        # more than a thousand characters, with or without one foreign character somewhere
        n = draw(st.integers(1001, 1400))
        body = draw(gens.exact_words(ref.AA, n))
        if draw(st.booleans()):
            pos = draw(st.integers(0, n))
            body = body[:pos] + draw(st.sampled_from(["é", "α", "А", "​", "﻿", "X", "1", "中", "ß"])) + body[pos:]
        if draw(st.booleans()):
            body = " ".join(body[i:i + 10] for i in range(0, len(body), 10))
        return {"s": body}
    if kind == "text":
        return {"s": draw(st.text(max_size=30))}
    if kind == "nonstring":
        v = draw(st.sampled_from(["None", "0", "1", "1.5", "b'EK'", "b''", "['E','K']", "[]", "('E','K')", "()", "{'E': 1}", "True", "False", "2.0", "float('nan')", "float('inf')", "Ellipsis", "frozenset('EK')", "bytearray(b'EK')",
                                  "type('S', (), {'__str__': lambda self: 'EKEK'})()", "UserString('EK')", "UserString('ek g')", "BioSeq('EKG')", "BioMutableSeq('EKG')",
                                  "type('U', (), {'upper': lambda self: 'EKEK', '__str__': lambda self: 'EKEK'})()", "memoryview(b'EK')", "range(3)"]))
        return {"s": {"__py__": v}}
    w = draw(gens.sequences(max_len=max_len))
    chars = []
    for c in w:
        if draw(st.integers(0, 3)) == 0:
            chars.append(draw(st.text(alphabet=WS, min_size=1, max_size=3)))
        chars.append(c.lower() if draw(st.booleans()) else c)
    if draw(st.booleans()):
        chars.append(draw(st.text(alphabet=WS, min_size=1, max_size=3)))
    if kind == "foreign":
        pos = draw(st.integers(0, len(chars)))
        chars.insert(pos, draw(FOREIGN))
    return {"s": "".join(chars)}


def fuzz_target(data):
    """atheris entry: bytes -> text -> constructor, with the same oracle (raises on violation)."""
    from ..core import Ctx
    s = data.decode("utf-8", errors="replace")
    ctx = Ctx(PROPERTY, "atheris-constructor", "thorough", 0)
    check_string(ctx, s, {"s": s})
    return ctx


def run_fuzz(ctx, tier, seed, idx, nshards):
    fuzz.campaign(ctx, "c13", seed, idx, runs=60000 if tier == "thorough" else 4000,
                  corpus=[b"", b"EK", b"mdvfmkglsk AKEGV\n", b"GS KE\tX", "KE R".encode()] if idx % 2 else [],
                  decode=lambda b: {"s": b.decode("utf-8", errors="replace")}, max_len=48)


def parts(tier):
    ps = [
        Part("enum-insertions", "enum", check=check, cases=enum_cases, exhaustive=True, shards={"quick": 8, "thorough": 16}),
        Part("hyp-strings", "hyp", check=check, strategy=lambda t: hyp_case(40 if t == "quick" else 120),
             examples={"quick": 6400, "thorough": 64000}, shards={"quick": 16, "thorough": 16}),
    ]
    if tier == "thorough" and fuzz.available():
        ps.append(Part("atheris-constructor", "custom", run=run_fuzz, check=check, shards={"quick": 1, "thorough": 16}))
    return ps
