"""Reference model, written from the property statements and the cited definitions only.
Nothing in here imports localcider.  Rational quantities are exact (fractions.Fraction).
"""
import math
from fractions import Fraction as F
from functools import lru_cache

AA = "ACDEFGHIKLMNPQRSTVWY"
POS, NEG = "KR", "DE"
NEUTRAL = "".join(a for a in AA if a not in POS + NEG)
OMEGA_X = "PEDKR"
OMEGA_O = "".join(a for a in AA if a not in OMEGA_X)
STY = "STY"


def charge_of(res):
    return 1 if res in POS else (-1 if res in NEG else 0)


def pattern(seq):
    return [charge_of(r) for r in seq]


def pattern_str(seq):
    return "".join("+" if r in POS else ("-" if r in NEG else "0") for r in seq)


def pat_from_str(s):
    return [1 if c == "+" else (-1 if c == "-" else 0) for c in s]


# ---------------------------------------------------------------------------------------------
# charge patterning: sigma, delta, documented delta-max family, kappa rule

@lru_cache(maxsize=None)
def sigma_frac(p, n, L):
    """(f+ - f-)^2 / (f+ + f-) for p positive and n negative residues among L; 0 if uncharged."""
    if p + n == 0:
        return F(0)
    return F((p - n) ** 2, L * (p + n))


def delta_w(pat, w):
    """Mean squared deviation of blob sigma from sequence sigma over all sliding blobs of size w;
    0 when the blob is longer than the sequence."""
    N = len(pat)
    nb = N - w + 1
    if nb <= 0:
        return F(0)
    P = sum(1 for c in pat if c > 0)
    M = sum(1 for c in pat if c < 0)
    s = sigma_frac(P, M, N)
    p = sum(1 for c in pat[:w] if c > 0)
    n = sum(1 for c in pat[:w] if c < 0)
    tot = (s - sigma_frac(p, n, w)) ** 2
    for i in range(1, nb):
        out, inn = pat[i - 1], pat[i + w - 1]
        if out > 0:
            p -= 1
        elif out < 0:
            n -= 1
        if inn > 0:
            p += 1
        elif inn < 0:
            n += 1
        tot += (s - sigma_frac(p, n, w)) ** 2
    return tot / nb


def delta(pat):
    return (delta_w(pat, 5) + delta_w(pat, 6)) / 2


def delta_float(pat):
    """Independent float implementation (used where only a ranking is needed)."""
    N = len(pat)
    P = sum(1 for c in pat if c > 0)
    M = sum(1 for c in pat if c < 0)
    s = 0.0 if P + M == 0 else (P - M) ** 2 / (N * (P + M))
    out = 0.0
    for w in (5, 6):
        nb = N - w + 1
        if nb <= 0:
            continue
        acc = 0.0
        for i in range(nb):
            blob = pat[i:i + w]
            p = sum(1 for c in blob if c > 0)
            n = sum(1 for c in blob if c < 0)
            b = 0.0 if p + n == 0 else (p - n) ** 2 / (w * (p + n))
            acc += (s - b) ** 2
        out += acc / nb
    return out / 2


def regime(P, M, Z):
    if P + M == 0:
        return "uncharged"
    if P == 0 or M == 0:
        return "one-charge-type"
    if Z == 0:
        return "no-neutrals"
    if Z >= 18:
        return "many-neutrals"
    return "general"


def family(P, M, Z):
    """The documented candidate arrangements, as lists of alternative readings.
    Returns a list of candidate-lists (one per admissible reading of the prose); each candidate is
    a '+-0' string.  The reference delta-max of a reading is the max delta over its candidates."""
    r = regime(P, M, Z)
    if r == "uncharged":
        return [["0" * Z]]
    if r == "one-charge-type":
        c = "+" if M == 0 else "-"
        k = P + M
        slide_charged = [("0" * i) + c * k + "0" * (Z - i) for i in range(Z + 1)]
        slide_neutral = [(c * i) + "0" * Z + c * (k - i) for i in range(k + 1)]
        if Z > k:
            return [slide_charged]          # charged block is the shorter one
        if Z < k:
            return [slide_neutral]
        return [slide_neutral, slide_charged]   # equal blocks: prose is ambiguous, accept either
    if r == "no-neutrals":
        pos_through_neg = [("-" * i) + "+" * P + "-" * (M - i) for i in range(M + 1)]
        neg_through_pos = [("+" * i) + "-" * M + "+" * (P - i) for i in range(P + 1)]
        if P > M:
            return [neg_through_pos]
        if M > P:
            return [pos_through_neg]
        return [pos_through_neg, neg_through_pos]
    if r == "many-neutrals":
        return [["0" * s + "+" * P + "0" * (Z - s - e) + "-" * M + "0" * e
                 for s in range(7) for e in range(7)]]
    return [["0" * s + "+" * P + "0" * m + "-" * M + "0" * (Z - s - m)
             for m in range(Z + 1) for s in range(Z - m + 1)]]


@lru_cache(maxsize=200000)
def dmax_refs(P, M, Z):
    """Tuple of admissible reference delta-max values (one per reading), exact."""
    out = []
    for cands in family(P, M, Z):
        out.append(max(delta(pat_from_str(c)) for c in cands))
    return tuple(out)


def kappa_from(d, m):
    """The stated rule on exact or float (delta, delta-max)."""
    if m == 0:
        return -1
    r = d / m
    if 1 < r < F(11, 10):
        return 1
    return r


def near_clamp_edge(d, m, eps=1e-9):
    if m == 0:
        return False
    r = F(d) / F(m)
    return abs(r - F(11, 10)) <= eps or abs(r - 1) <= eps


# ---------------------------------------------------------------------------------------------
# SCD

def scd(pat):
    N = len(pat)
    idx = [(i + 1, q) for i, q in enumerate(pat) if q != 0]
    terms = []
    for a in range(len(idx)):
        m, qm = idx[a]
        for b in range(a):
            n, qn = idx[b]
            terms.append(qm * qn * math.sqrt(m - n))
    return math.fsum(terms) / N


# ---------------------------------------------------------------------------------------------
# per-residue tables (transcribed from the cited sources; see DESIGN 3.2)

KD = dict(I=4.5, V=4.2, L=3.8, F=2.8, C=2.5, M=1.9, A=1.8, G=-0.4, T=-0.7, S=-0.8, W=-0.9, Y=-1.3,
          P=-1.6, H=-3.2, E=-3.5, Q=-3.5, D=-3.5, N=-3.5, K=-3.9, R=-4.5)
WW = dict(I=0.31, V=-0.07, L=0.56, F=1.13, C=0.24, M=0.23, A=-0.17, G=-0.01, T=-0.14, S=-0.13,
          W=1.85, Y=0.94, P=-0.45, H=-0.96, E=-2.02, Q=-0.58, D=-1.23, N=-0.42, K=-0.99, R=-0.81)
PPII = dict(
    hilser=dict(I=0.39, V=0.39, L=0.24, F=0.17, C=0.25, M=0.36, A=0.37, G=0.13, T=0.32, S=0.24,
                W=0.25, Y=0.25, P=1.00, H=0.20, E=0.42, Q=0.53, D=0.30, N=0.27, K=0.56, R=0.38),
    creamer=dict(I=0.50, V=0.49, L=0.58, F=0.58, C=0.55, M=0.55, A=0.61, G=0.58, T=0.53, S=0.58,
                 W=0.58, Y=0.58, P=0.67, H=0.55, E=0.61, Q=0.66, D=0.63, N=0.55, K=0.59, R=0.61),
    kallenbach=dict(I=0.519, V=0.743, L=0.574, F=0.639, C=0.557, M=0.498, A=0.818, G=0.500,
                    T=0.553, S=0.774, W=0.764, Y=0.630, P=1.000, H=0.428, E=0.684, Q=0.654,
                    D=0.552, N=0.667, K=0.581, R=0.638))
MW = dict(I=131.2, V=117.1, L=131.2, F=165.2, C=121.2, M=149.2, A=89.1, G=75.1, T=119.1, S=105.1,
          W=204.2, Y=181.2, P=115.1, H=155.2, E=147.1, Q=146.2, D=133.1, N=132.1, K=146.2, R=174.2)
DISORDER_PROMOTING = "TAGRDHQKSEP"
PKA = dict(C=8.5, Y=10.1, H=6.5, E=4.1, D=3.9, K=10.0, R=12.5)
BASIC, ACIDIC = "KRH", "DECY"


def fsum_over(seq, table, shift=0.0):
    return math.fsum(table[r] + shift for r in seq)


def composition(seq):
    """Every composition parameter of C04, from the tables above."""
    N = len(seq)
    P = sum(seq.count(r) for r in POS)
    M = sum(seq.count(r) for r in NEG)
    out = dict(
        countPos=P, countNeg=M, countNeut=N - P - M,
        f_plus=P / N, f_minus=M / N, FCR=(P + M) / N, NCPR=(P - M) / N,
        mean_net_charge=abs(P - M) / N,
        expanding=(P + M + seq.count("P")) / N,
        disorder=sum(1 for r in seq if r in DISORDER_PROMOTING) / N,
        kd=fsum_over(seq, KD, 4.5) / N,
        uversky=fsum_over(seq, KD, 4.5) / 9.0 / N,
        ww=fsum_over(seq, WW) / N,
        mw=fsum_over(seq, MW) - 18.0 * (N - 1),
        fractions={a: seq.count(a) / N for a in AA},
    )
    for mode in PPII:
        out["ppii_" + mode] = fsum_over(seq, PPII[mode]) / N
    return out


# ---------------------------------------------------------------------------------------------
# diagram-of-states region, exact

def region(P, M, N):
    fcr = F(P + M, N)
    ncpr = F(P - M, N)
    if fcr < F(1, 4):
        return 1
    if fcr <= F(35, 100):
        return 2
    if abs(ncpr) < F(35, 100):
        return 3
    if P > M:
        return 5
    if M > P:
        return 4
    raise AssertionError("unreachable: FCR>0.35, |NCPR|>=0.35 and P==M")


def region_boundary(P, M, N):
    fcr = F(P + M, N)
    return fcr in (F(1, 4), F(35, 100)) or abs(F(P - M, N)) == F(35, 100)


# ---------------------------------------------------------------------------------------------
# Henderson-Hasselbalch

def hh_terms(seq, pH):
    pos = [1.0 / (1.0 + 10.0 ** (pH - PKA[r])) for r in seq if r in BASIC]
    neg = [1.0 / (1.0 + 10.0 ** (PKA[r] - pH)) for r in seq if r in ACIDIC]
    return pos, neg


def hh_net(seq, pH):
    pos, neg = hh_terms(seq, pH)
    return math.fsum(pos + [-x for x in neg])


def hh_total(seq, pH):
    pos, neg = hh_terms(seq, pH)
    return math.fsum(pos + neg)


def n_titratable(seq):
    return sum(1 for r in seq if r in BASIC + ACIDIC)


# ---------------------------------------------------------------------------------------------
# sliding windows

def window_profile(values_fn, N, w):
    """Reference profile: entry at 0-based column i + floor((w-1)/2) is values_fn(i) (statistic of the
    window starting at 0-based residue i); other columns 0."""
    out = [0.0] * N
    off = (w - 1) // 2
    for i in range(N - w + 1):
        out[i + off] = values_fn(i)
    return out


def win_ncpr(pat, w):
    return lambda i: sum(pat[i:i + w]) / w


def win_fcr(pat, w):
    return lambda i: sum(1 for c in pat[i:i + w] if c != 0) / w


def win_sigma(pat, w):
    def f(i):
        b = pat[i:i + w]
        return float(sigma_frac(sum(1 for c in b if c > 0), sum(1 for c in b if c < 0), w))
    return f


def win_hydro(seq, w):
    return lambda i: math.fsum((KD[r] + 4.5) / 9.0 for r in seq[i:i + w]) / w


def win_group(seq, w, group):
    g = set(group)
    return lambda i: sum(1 for r in seq[i:i + w] if r in g) / w


DEFAULT_GROUPS = ["ED", "RK", "RKED", "QNSTGHC", "ALMIV", "FYW", "P"]


# ---------------------------------------------------------------------------------------------
# reduced alphabets: the documented partitions

PARTITIONS = {
    2: ["LVIMCAGSTPFYW", "EDNQKRH"],
    3: ["LVIMCAGSTP", "FYW", "EDNQKRH"],
    4: ["LVIMC", "AGSTP", "FYW", "EDNQKRH"],
    5: ["LVIMC", "ASGTP", "FYW", "EDNQ", "KRH"],
    6: ["LVIM", "ASGT", "PHC", "FYW", "EDNQ", "KR"],
    8: ["LVIMC", "AG", "ST", "P", "FYW", "EDNQ", "KR", "H"],
    10: ["LVIM", "C", "A", "G", "ST", "P", "FYW", "EDNQ", "KR", "H"],
    11: ["LVIM", "C", "A", "G", "ST", "P", "FYW", "ED", "NQ", "KR", "H"],
    12: ["LVIM", "C", "A", "G", "ST", "P", "FY", "W", "EQ", "DN", "KR", "H"],
    15: ["LVIM", "C", "A", "G", "S", "T", "P", "FY", "W", "E", "Q", "D", "N", "KR", "H"],
    18: ["LM", "VI", "C", "A", "G", "S", "T", "P", "F", "Y", "W", "E", "D", "N", "Q", "K", "R", "H"],
    20: list(AA),
}
for _k, _v in PARTITIONS.items():
    assert len(_v) == _k and sorted("".join(_v)) == sorted(AA), _k


def group_of(size, res):
    for g in PARTITIONS[size]:
        if res in g:
            return g
    raise KeyError(res)


def shannon(window, base):
    """Shannon entropy of the letter composition of `window`, logarithm to `base`."""
    n = len(window)
    h = 0.0
    for a in set(window):
        p = window.count(a) / n
        h -= p * math.log(p) / math.log(base)
    return h


# ---------------------------------------------------------------------------------------------
# geometry

def point_in_closed_polygon(x, y, poly, tol=1e-9):
    """poly: list of (x, y) vertices.  True if (x, y) is inside or within tol of the boundary."""
    n = len(poly)
    # boundary
    for i in range(n):
        x1, y1 = poly[i]
        x2, y2 = poly[(i + 1) % n]
        dx, dy = x2 - x1, y2 - y1
        L2 = dx * dx + dy * dy
        if L2 == 0:
            d = math.hypot(x - x1, y - y1)
        else:
            t = max(0.0, min(1.0, ((x - x1) * dx + (y - y1) * dy) / L2))
            d = math.hypot(x - (x1 + t * dx), y - (y1 + t * dy))
        if d <= tol:
            return True
    inside = False
    for i in range(n):
        x1, y1 = poly[i]
        x2, y2 = poly[(i + 1) % n]
        if (y1 > y) != (y2 > y):
            xi = x1 + (y - y1) * (x2 - x1) / (y2 - y1)
            if xi > x:
                inside = not inside
    return inside


def close(a, b, tol=1e-9):
    a = float(a)
    b = float(b)
    if a != a or b != b:
        return False
    return abs(a - b) <= tol * max(1.0, abs(b))
