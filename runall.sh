#!/bin/sh
# run every quick (or $1) check once (PROPS="C03 C08" restricts the list); prints a one-line verdict per property
tier=${1:-quick}
for p in ${PROPS:-C01 C02 C03 C04 C05 C06 C07 C08 C09 C10 C11 C12 C13 C14 C15 C16 C17 C18 C19 C20}; do
  s=$(date +%s)
  ./check $p --tier $tier > /tmp/runall.$p.log 2>&1; rc=$?
  echo "$p exit=$rc $(( $(date +%s) - s ))s $(grep -c '^VIOLATION' /tmp/runall.$p.log) violations $(grep -c '^KNOWN-FINDING' /tmp/runall.$p.log) known  $(tail -1 /tmp/runall.$p.log | cut -c1-120)"
done
