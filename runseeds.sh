#!/bin/sh
# runseeds.sh <seed>... : every quick check at each seed (evidence and replay files go to a scratch dir); prints only non-clean results
tmp=$(mktemp -d /tmp/vlc-seeds-XXXX)
for s in "$@"; do
  for p in C01 C02 C03 C04 C05 C06 C07 C08 C09 C10 C11 C12 C13 C14 C15 C16 C17 C18 C19 C20; do
    VERIF_SEED=$s VERIF_EVIDENCE_DIR=$tmp/ev VERIF_REPLAY_DIR=$tmp/rp ./check $p > $tmp/$s.$p.log 2>&1; rc=$?
    v=$(grep -c '^VIOLATION' $tmp/$s.$p.log)
    if [ "$rc" != "0" ] || [ "$v" != "0" ]; then echo "seed=$s $p exit=$rc violations=$v"; grep -E "^VIOLATION|bucket=|HARNESS" $tmp/$s.$p.log | head -5; tail -3 $tmp/$s.$p.log; fi
  done
  echo "seed $s done"
done
rm -rf $tmp
